#!/bin/bash
# usage: bin/benign_run.sh <name> [property ids...]   (default: all 19)
# False-alarm experiment: applies /verif/benign/<name>/patch.diff (a behaviour-changing but property-preserving variant of the
# crate) to a scratch worktree of /repo's HEAD under /tmp, runs the quick checks against that tree (VERIF_REPO/VERIF_ALT, outputs
# under run/alt-<name>/), prints one line per check, removes the worktree.  /repo itself is never touched.
set -u
NAME=$1; shift
P=/verif/benign/$NAME/patch.diff
WT=/tmp/wt/benignrun-$NAME
mkdir -p /tmp/wt
git -C /repo worktree add -q --detach $WT HEAD || exit 2
if ! git -C $WT apply --3way $P 2>/dev/null; then echo "$NAME: patch does not apply"; git -C /repo worktree remove --force $WT; exit 2; fi
IDS=("$@")
if [ ${#IDS[@]} -eq 0 ]; then IDS=(C01 C02 C03 C04 C05 C06 C07 C08 C09 C10 C11 C12 C13 C14 C15 C16 C17 C18 C19); fi
for PID in "${IDS[@]}"; do
  out=$(cd /verif && VERIF_REPO=$WT VERIF_ALT=$NAME timeout 2400 bin/check $PID --tier quick 2>/dev/null)
  rc=$?
  nv=$(echo "$out" | grep -c "^VIOLATION")
  echo "$NAME $PID exit=$rc violations=$nv"
  if [ $nv -gt 0 ]; then echo "$out" | grep "^VIOLATION" | head -3; fi
done
git -C /repo worktree remove --force $WT
rm -rf /verif/run/alt-$NAME/harness/target
