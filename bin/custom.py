"""Custom jobs of the driver: specification -> implementation replay (C04) and the Writer exploration (C10)."""
import json, os, subprocess, itertools, random, re, time, hashlib

SIG12 = [65, 97, 48, 32, 42, 33, 94, 95, 0, 128, 225, 13]
# for the simulation part: further classes (backtick = Text shift 3 value 0, 0xC2 = upper shift + C40 basic, DEL, '?', '>' ...)
SIG_EXT = SIG12 + [96, 194, 127, 63, 62, 90, 122, 57, 31, 160, 255, 224, 91, 64]
CAPS_ALL = [3, 5, 8, 10, 12, 16, 18, 22, 24, 30, 32, 36, 38, 43, 44, 49, 56, 62, 63, 64, 70, 72, 80, 84, 86, 90, 108, 114, 118, 144,
            174, 204, 280, 368, 456, 576, 696, 816, 1050, 1304, 1558]
CLASSES = [b"ABCDEFGHIJKLMNOPQRSTUVWXYZ", b"abcdefghijklmnopqrstuvwxyz", b"0123456789", b"ABC019 *>\r", bytes(range(32, 95)),
           bytes(range(128, 256)), bytes(range(0, 32)), b"!\"#$%&'()*+,-./:;<=>?@[\\]^_"]


def run_tlc_lines(drv, spec, cfg, env, workdir, outfile, extra=(), workers=16, timeout=14400, simulate=False):
    """run TLC, keep only the printed JSON lines in outfile; return (states generated, distinct)"""
    meta = os.path.join(workdir, "states-" + spec)
    cmd = ["timeout", str(timeout), drv.TLC, "-workers", str(workers), "-config", os.path.join(drv.SPEC, cfg),
           "-metadir", meta, "-cleanup", "-noGenerateSpecTE"] + list(extra) + [os.path.join(drv.SPEC, spec + ".tla")]
    e = dict(os.environ)
    e.update(env)
    gen = dist = 0
    ok = False
    with open(outfile, "w") as out:
        p = subprocess.Popen(cmd, cwd=drv.SPEC, env=e, stdout=subprocess.PIPE, stderr=subprocess.STDOUT, text=True)
        tail = []
        for line in p.stdout:
            if line.startswith('"{'):
                out.write(line)
            else:
                tail.append(line)
                if len(tail) > 60:
                    tail.pop(0)
                m = re.search(r"(\d+) states generated, (\d+) distinct states found", line)
                if m:
                    gen, dist = int(m.group(1)), int(m.group(2))
                m = re.search(r"The number of states generated: (\d+)", line)
                if m:
                    gen = dist = int(m.group(1))
                if "Model checking completed. No error has been found." in line or (simulate and "The number of states generated" in line):
                    ok = True
        rc = p.wait()
    import shutil
    shutil.rmtree(meta, ignore_errors=True)
    if rc == 124:
        raise drv.ToolError("TLC timeout on %s" % spec)
    if rc != 0 or not ok:
        raise drv.ToolError("TLC failed on %s (exit %d)\n%s" % (spec, rc, "".join(tail)[-3000:]))
    return gen, dist


def replay_c04(drv, binary, infile, resfile):
    p = subprocess.run([binary, "replay", "c04", "--in", infile, "--out", resfile], stdout=subprocess.PIPE, stderr=subprocess.PIPE, text=True, timeout=7200)
    if p.returncode != 0:
        raise drv.ToolError("replay c04 failed: " + p.stderr[-2000:])
    mism, summary = [], None
    for line in open(resfile):
        r = json.loads(line)
        if r.get("summary"):
            summary = r
        else:
            mism.append(r)
    if summary is None:
        raise drv.ToolError("replay c04: no summary")
    return mism, summary


def c04_job(pid, job, bins, tier, seed, workdir, ev, drv):
    thorough = tier == "thorough"
    rnd = random.Random(seed)
    findings = []
    # (1) exhaustive: every behaviour of the Writer for every short input
    short = os.path.join(workdir, "genw-short.ndjson")
    maxlen = 3 if thorough else 2
    with open(short, "w") as f:
        for L in range(0, maxlen + 1):
            for t in itertools.product(SIG12, repeat=L):
                if L >= 3:
                    caps, pre = [5, 8, 12], ["none"]
                elif L == 2:
                    caps, pre = [3, 5, 8, 10, 12], ["none", "macro06"]
                else:
                    caps, pre = [3, 5, 8, 10, 12, 16], ["none", "macro05", "macro06", "fnc1"]
                f.write(json.dumps({"input": list(t), "caps": caps, "prefixes": pre}) + "\n")
        # end-of-symbol rules against every class of the character that follows: a body that fills whole C40/X12 triples or
        # EDIFACT groups, a lower-case prefix that moves the body to each codeword position, one or two tail characters from the
        # boundaries of the ASCII codeword ranges; capacities chosen so that the run ends 0, 1 or 2 codewords before the end
        tails1 = [0, 31, 32, 47, 48, 57, 58, 64, 65, 90, 91, 94, 95, 96, 97, 122, 123, 124, 125, 126, 127, 128, 255]
        tails = [[a] for a in tails1] + [[a, b] for a in tails1 for b in (49, 123)]
        for body in ("DAT", "DATA", "D1 A"):
            for pre in ("", "a", "ab"):
                for t in tails:
                    inp = [ord(c) for c in pre + body] + t
                    f.write(json.dumps({"input": inp, "caps": [c for c in (5, 8, 10, 12) if c >= len(inp) - 3 and c <= len(inp) + 2],
                                        "prefixes": ["none"]}) + "\n")
    lines1 = os.path.join(workdir, "genw-short.lines")
    t0 = time.time()
    gen, dist = run_tlc_lines(drv, "GenW", "GenW.cfg", {"INPUTS": short}, workdir, lines1)
    ev["states"] += dist
    ev["transitions"] += gen
    ev["mc"]["GenW_exhaustive"] = {"states": dist, "transitions": gen, "inputs": sum(1 for _ in open(short)), "max_input_len": maxlen}
    # (2) simulation: random behaviours for longer inputs (long Base256 runs, 2-byte length fields, many segments)
    longf = os.path.join(workdir, "genw-long.ndjson")
    with open(longf, "w") as f:
        # short inputs over the extended alphabet, generous capacities (almost every walk completes)
        for k in range(400 if thorough else 150):
            n = rnd.choice([3, 4, 4, 5, 5, 6, 7, 8, 10])
            s = [rnd.choice(SIG_EXT) for _ in range(n)]
            if rnd.random() < 0.5:
                # one class run with a single odd character inside
                c = rnd.choice(CLASSES[:5])
                s = [rnd.choice(c) for _ in range(n)]
                s[rnd.randrange(n)] = rnd.choice(SIG_EXT)
            caps = [c for c in CAPS_ALL if n * 0.6 <= c <= 3 * n + 10][:6]
            f.write(json.dumps({"input": s, "caps": caps, "prefixes": ["none", "macro06", "fnc1"] if k % 5 == 0 else ["none"]}) + "\n")
        for k in range(90 if thorough else 40):
            n = rnd.choice([4, 6, 9, 13, 20, 35, 60, 120, 260, 300, 700])
            s = []
            while len(s) < n:
                c = rnd.choice(CLASSES)
                s += [rnd.choice(c) for _ in range(rnd.randint(1, max(1, n // 3)))]
            s = s[:n]
            caps = [c for c in CAPS_ALL if n * 0.5 <= c <= 2.3 * n + 6][:8] or [1558]
            f.write(json.dumps({"input": s, "caps": caps, "prefixes": ["none", "macro05", "fnc1"]}) + "\n")
    lines2 = os.path.join(workdir, "genw-long.lines")
    num = 6000 if thorough else 1500
    gen, dist = run_tlc_lines(drv, "GenW", "GenW.cfg", {"INPUTS": longf}, workdir, lines2,
                              extra=("-simulate", "num=%d" % num, "-depth", "3000", "-seed", str(seed)), simulate=True)
    ev["transitions"] += gen
    ev["states"] += gen
    ev["mc"]["GenW_simulation"] = {"states_checked": gen, "walks": num * 16}
    ev["tlc_s"] = ev.get("tlc_s", 0) + time.time() - t0
    # (3) replay into the implementation
    for name, lines in (("exhaustive", lines1), ("simulation", lines2)):
        res = lines + ".res"
        mism, summary = replay_c04(drv, bins["release"], lines, res)
        ev["validated"] += summary["replayed"]
        ev["notes"]["streams_replayed_" + name] = summary["replayed"]
        ev["notes"]["decode_str_checked_" + name] = summary["decode_str_checked"]
        if summary["replayed"] == 0:
            raise drv.ToolError("C04: no behaviours generated (%s)" % name)
        for s in summary["samples"]:
            if len(ev["samples"]) < 4:
                ev["samples"].append(s)
        for m in mism:
            case = {"id": m["n"], "fam": "genw", "stratum": name, "input": m["expect"], "stream": m["stream"],
                    "events": [{"ev": "DecodeData", "res": m["got"]}, {"ev": "DecodeStr", "res": m["got_str"]}]}
            findings.append((case, {"id": m["n"], "fails": ["C04.decodeMismatch"]}, ["C04.decodeMismatch"], job))
        with open(lines) as f:
            for line in f:
                ev["nontrivial"].add(hashlib.md5(line.encode()).hexdigest())
        for p in (lines, res):
            if not os.environ.get("VERIF_KEEP"):
                os.remove(p)
    return findings


def case_key(case):
    # the symbol list enters as a SET of names: the finding does not depend on the order in which the implementation iterates
    # symbols of equal capacity
    return hashlib.sha1(json.dumps([case["input"], case["modes"], sorted(case["list"]), case["macro"], case["fnc1"], case["eci"]]).encode()).hexdigest()[:12]


def c10_min_job(pid, job, bins, tier, seed, workdir, ev, drv):
    """Writer exploration below the implementation's choice.  The case set is deterministic (fixed generator seed)
    so that the known findings - which are identified by the specific input and configuration - are stable."""
    trace = os.path.join(workdir, "enc-min.ndjson")
    drv.generate(bins["release"], "enc", trace, tier, 20261003, "C10")
    findings = []
    for chunk in drv.split_chunks(trace, 12000):
        cases = {}
        for line in open(chunk):
            r = json.loads(line)
            cases[r["id"]] = r
        lines = chunk + ".wit"
        t0 = time.time()
        gen, dist = run_tlc_lines(drv, "Trace_Min", "Trace_Min.cfg", {"TRACE": chunk}, workdir, lines)
        ev["tlc_s"] = ev.get("tlc_s", 0) + time.time() - t0
        ev["states"] += dist
        ev["transitions"] += gen
        ev["validated"] += len(cases)
        for c in cases.values():
            ev["strata"]["min:" + c.get("stratum", "?")] += 1
            if c["events"][0]["res"].get("kind") in ("Ok", "TooMuch"):
                ev["nontrivial"].add(case_key(c))
        # one witness per case; the implementation's own decoder must confirm it
        wit = {}
        for line in open(lines):
            v = json.loads(json.loads(line))
            wit.setdefault(v["id"], v)
        if wit:
            conf_in = chunk + ".conf"
            with open(conf_in, "w") as f:
                for v in wit.values():
                    f.write(json.dumps(json.dumps({"expect": v["expect"], "stream": v["stream"], "i": v["id"]})) + "\n")
            mism, summary = replay_c04(drv, bins["release"], conf_in, conf_in + ".res")
            if mism:
                raise drv.ToolError("C10: %d witness streams are NOT decoded to the input by the implementation's decoder - "
                                    "oracle or decoder defect, see %s" % (len(mism), conf_in + ".res"))
            ev["notes"]["witnesses_confirmed_by_decoder"] += len(wit)
            for p in (conf_in, conf_in + ".res"):
                os.remove(p)
        for cid, v in wit.items():
            case = dict(cases[cid])
            case["witness"] = {"cap": v["cap"], "stream": v["stream"]}
            findings.append((case, {"id": cid, "fails": ["C10.smallerFits"]}, ["C10.smallerFits"], job))
        os.remove(lines)
        os.remove(chunk)
    if not os.environ.get("VERIF_KEEP"):
        os.remove(trace)
    return findings
