#!/usr/bin/env python3
"""Prints `known:` lines for the replay files of a property (manual step when a genuine defect is recorded
rather than repaired; the checks never write KNOWN_FINDINGS.txt themselves).
usage: bin/known_from_replays.py <ID> [run dir]"""
import sys, json, glob, os
pid = sys.argv[1]
rundir = sys.argv[2] if len(sys.argv) > 2 else os.path.join(os.path.dirname(os.path.dirname(os.path.abspath(__file__))), "run", pid)
seen = set()
for f in sorted(glob.glob(os.path.join(rundir, "replay-*.json")), key=lambda x: int(x.split("-")[-1].split(".")[0])):
    r = json.load(open(f))
    c = r["case"]
    for sig in r["signatures"]:
        if sig in seen:
            continue
        seen.add(sig)
        res = c["events"][0]["res"]
        what = "input=%s modes=%d symbols=%d macro=%s fnc1=%s: encoder %s, but a valid encoding fits %d codewords (witness in replay)" % (
            bytes(c["input"]).hex(), c["modes"], len(c["list"]), c["macro"], c["fnc1"],
            ("uses %s (%d codewords)" % (res.get("size"), len(res.get("data", [])))) if res.get("kind") == "Ok" else "refuses (TooMuch)",
            c["witness"]["cap"])
        print("known: property=%s sig=%s %s" % (pid, sig, what))
