#!/usr/bin/env python3
"""Writes MANIFEST.json from bin/props.py (claimed properties) - not_applicable lists the rest."""
import json, os, sys
ROOT = os.path.dirname(os.path.dirname(os.path.abspath(__file__)))
sys.path.insert(0, os.path.join(ROOT, "bin"))
import props

all_ids = [json.loads(l)["id"] for l in open(os.path.join(ROOT, "properties.jsonl"))]
checks = []
for pid in all_ids:
    if pid not in props.PROPS or props.PROPS[pid].get("unclaimed"):
        continue
    p = props.PROPS[pid]
    checks.append({
        "property_id": pid,
        "quick_cmd": "bin/check %s --tier quick" % pid,
        "thorough_cmd": "bin/check %s --tier thorough" % pid,
        "evidence_file": "/verif/evidence/%s.json" % pid,
        "replay_cmd_template": "bin/check %s --replay {path}" % pid,
        "engine": p.get("engine", "tlc-trace-validation"),
        "level_claimed": {"category": "model_checking", "text": p["level_text"], "design_ref": p.get("design_ref", "DESIGN.md section 4")},
        "level_note": p["level_note"],
        "technique": p.get("technique", "TLA+ specification checked with TLC; implementation traces validated against the specification"),
    })
na = [{"property_id": pid, "reason": props.NOT_YET.get(pid, "check not built yet in this round (planned: DESIGN.md section 4)")}
      for pid in all_ids if pid not in [c["property_id"] for c in checks]]
man = {
    "version": 1,
    "setup_cmd": "bin/check setup",
    "hooks": {"guard": "datamatrix_verif", "enable": "RUSTFLAGS='--cfg datamatrix_verif' (set in harness/.cargo/config.toml)",
              "baseline_off_cmd": "cd /repo && cargo test --workspace --no-fail-fast --offline",
              "source_commits": props.HOOK_COMMITS, "add_only": True},
    "engines": [
        {"name": "tlc-trace-validation", "path": "/verif/spec", "serves_properties": [c["property_id"] for c in checks],
         "kind_free_text": "explicit TLA+ specification (spec/*.tla); TLC 1.8 validates ndjson traces recorded from the real crate by the Rust harness (harness/), and generates behaviours that are replayed into the crate"},
    ],
    "checks": checks,
    "not_applicable": na,
    "notes": "See DESIGN.md. exit 2 = tool error (never a verdict). KNOWN_FINDINGS.txt lists fixed/known findings.",
}
json.dump(man, open(os.path.join(ROOT, "MANIFEST.json"), "w"), indent=1)
print("claimed:", [c["property_id"] for c in checks])
