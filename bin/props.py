"""Per-property configuration of the checks: which event families are generated, which trace
specification judges them, which model-checking configurations of the specification itself run first."""
import json
import collections
import custom

ENC_ACTIONS = "EvEncode ReadAscii ReadC40 ReadText ReadX12 ReadEdifact ReadB256 ReadFinish EvDecodeData EvDecodePixels EvPlan"


def enc_job(focus, profiles=("release",)):
    return {"family": "enc", "spec": "Trace_Enc", "focus": focus, "profiles": profiles, "coverage": True}


PROPS = {
    "C01": {
        "level_text": 'Every recorded encode/decode case is a behaviour of Trace_Enc.tla: TLC replays the produced data codewords through the ISO 16022 reader and requires both decode results to equal the input; exhaustive over a class alphabet up to length 3 plus boundary/random/envelope strata.',
        "level_note": 'Trusts: the harness records results faithfully; class-alphabet assumption; pixel path relies on C07/C08 for Render/Place.',
        "jobs": [enc_job("C01")],
        "rule": "one case = (input bytes, symbol list, mode set, macro, FNC1) -> Encode -> decode_data(data codewords) and "
                "DataMatrix::decode(rendered pixels); strata: all strings over a 27-byte class alphabet up to length 3, boundary "
                "strings per character class x tail shape, class pairs, random runs (log-uniform lengths to 3300), macro envelope "
                "strings; a case is non-trivial if encoding succeeded; distinct = distinct (input, modes, list, macro, fnc1)",
        "assumptions": ["the mode encoders distinguish bytes only by the classes represented in the alphabet (random strata probe this)",
                        "pixels = Render(Place(codewords)) is established by C07/C08, not re-derived here"],
    },
    "C02": {
        "mc": ["MC_Codec", "MC_Reader"],
        "level_text": 'The produced stream is judged by an independent reader written in TLA+ from the standard (Stream.tla), stepped codeword by codeword by TLC, plus catalogue checks (size in list, data/ecc counts) from Symbols.tla.',
        "level_note": 'Trusts: Stream.tla/Symbols.tla transcriptions (cross-validated by MC_Codec, golden vectors, C04/C12 runs).',
        "jobs": [enc_job("C02")],
        "rule": "as C01 plus ECI numbers; every produced data codeword stream is read by the ISO/IEC 16022 reader of Stream.tla "
                "(one TLC step per codeword group); non-trivial = encoding succeeded",
        "assumptions": ["Stream.tla is a faithful transcription of ISO/IEC 16022 5.2 (validated by MC_Codec and the golden vectors)"],
    },
    "C11": {
        "level_text": 'Every outcome of every encoding entry point is an event; the trace specification has no action for panic/hang, and ties ListEmpty to the empty list; both build profiles. Beyond the logged cases the generator executes 250 000 (thorough: 3 000 000) further encoder calls per profile on random inputs shaped like the corner cases of the planner; a call is logged (and then judged by TLC) only if it panicked - evidence key `evaluations` counts them.',
        "level_note": 'Trusts: catch_unwind + 20 s watchdog observe all panics/hangs.',
        "jobs": [enc_job("C11", ("release", "checked"))],
        "rule": "as C01 over all 64 mode sets, empty/singleton/pair lists, ECI numbers, both build profiles; non-trivial = distinct "
                "(input, configuration); every outcome must be Ok/TooMuch/ListEmpty and ListEmpty iff the list is empty",
        "assumptions": ["a hang is observed as a 20 s watchdog expiry"],
    },
    "C13": {
        "mc": ["MC_Codec"],
        "level_text": 'The reader action Latch(m) carries the guard m in Enabled and ASCII data is only admitted in the end-of-data tail when ASCII is disabled; checked on every produced stream.',
        "level_note": "Trusts: the tail rule is the widest reading of the standard's fallbacks (<=4 chars, <=4 codewords, after the last latch).",
        "jobs": [enc_job("C13")],
        "rule": "as C01 with 60% of the cases having ASCII disabled; the reader flags latches into disabled modes and ASCII data "
                "outside the end-of-data tail; non-trivial = encoding succeeded with a proper subset of the modes",
        "assumptions": ["tail rule: ASCII data only after the last non-ASCII run, <= 4 characters in <= 4 codewords"],
    },
    "C16": {
        "level_text": 'Iff-conditions for macro compaction and FNC1 start are clauses of the trace specification evaluated on every produced stream; envelope strata enumerate all prefix/near-miss shapes.',
        "level_note": 'Trusts: as C02.',
        "jobs": [enc_job("C16")],
        "rule": "as C01 with the envelope stratum tripled (both heads x trailer x bodies, every prefix of the bare envelope, near "
                "misses) x macro flag x FNC1 flag; non-trivial = input has a macro head or trailer or FNC1 was requested",
        "assumptions": [],
    },
}

def rs_job(focus, profiles=("release",)):
    return {"family": "rs", "spec": "Trace_RS", "focus": focus, "profiles": profiles, "coverage": True}


PROPS.update({
    "C03": {
        "level_text": "Fault enumeration driven by the specification's block structure: for every size and block, error patterns of weight 1..floor(k/2) in the data region, the EC region, split, first/last codeword of each region, bursts, all blocks at once, patterns whose error values make the first m syndromes vanish, and u errors plus a pattern whose first 2u+m syndromes vanish (singular steps of every length in the decoder's locator search); TLC recomputes the per-block distance with its own interleaving and requires success with exactly the sent word.",
        "level_note": "Trusts: GF256.tla/ReedSolomon.tla (self-checked by ASSUMEs); premise 'sent is a codeword' is evaluated by TLC, not assumed.",
        "jobs": [rs_job("C03")],
        "rule": "one case = (size, random data vector, error pattern within capacity) -> encode_error, corrupt, decode_error; 12 pattern "
                "shapes per block of each of the 48 sizes, all blocks at weight t, all weight-2 position pairs for sizes with <= 24 "
                "codewords; non-trivial = at least one error; distinct = case id (each has a fresh random data vector)",
        "assumptions": ["error values from {1,0x80,0xFF} and random non-zero values"],
    },
    "C06": {
        "level_text": "Every ecc vector returned by encode_error is checked by TLC to make each interleaved block a multiple of the generator polynomial (all k syndromes zero with the spec's own GF(256) and interleaving); unit vectors at each block's last data position are compared literally with Gen(k) = prod (x - alpha^i).",
        "level_note": "Trusts: GF256.tla; linear-code argument (unit vectors + sparse/random vectors) extends the finite run to all data vectors only if the encoder is linear - sparse strata probe non-linearity.",
        "jobs": [rs_job("C06")],
        "rule": "per size: zero, all-FF, unit vectors (quick: first/last/random data position of each block; thorough: every position), "
                "scaled unit vectors, random vectors, sparse vectors (90%/66% zeros, short non-zero prefix), all (a,b,0) data vectors for "
                "10x10; non-trivial = data vector not all-zero; distinct = distinct (size, data)",
        "assumptions": [],
        "exhaustive_thorough": False,
    },
    "C09": {
        "level_text": "Whenever decode_error reports success TLC recomputes all syndromes of the word left behind; received words are aimed at the thin sets: codeword + multiple of prod_{i<=m}(x-alpha^i) for m = 2t-2..k-1 (+ up to t-1 errors), distance t+1..t+3 and k, syndromes of genuine error patterns with one structured perturbation, uniformly random words (4000 for 10x10); plus a storm of 2 x 10^8 (thorough 1.6 x 10^9) words drawn from ten prescribed-zero thin sets of the syndrome space on the six small single-block sizes, of which every word the implementation reports success on is logged and judged.",
        "level_note": "Trusts: GF256.tla/ReedSolomon.tla.",
        "jobs": [rs_job("C09")],
        "rule": "one case = (size, received word); non-trivial = decoder returned Ok on a word that differs from a sent codeword or has no "
                "sent codeword; counted: all cases where the decoder was consulted beyond capacity; the storm's unlogged calls (decoder said Err) are not counted as cases",
        "assumptions": [],
    },
})

GEOM_JOB = {"family": "geom", "spec": "Trace_Geom"}
PLACE_JOB = {"family": "place", "spec": "Trace_Place", "coverage": True}

PROPS["C03"]["jobs"].append(GEOM_JOB)
PROPS["C03"]["rule"] += "; pixel form (geom family): encoded messages of all 48 sizes, data modules flipped (1, 2, ~t, ... distinct modules), TLC maps every flipped module to its codeword through the Annex F placement and requires decode = message when every block stays within capacity"
PROPS.update({
    "C07": {
        "level_text": "(a) MC_Placement: the Annex F machine of Placement.tla is model-checked for all 48 shapes (no overwrite, complete, exactly the four corner modules left, terminates). (b) Trace_Place: the implementation's traversal (codeword number + eight cells per visit, recovered through the public API from the addresses handed to the visitor) must be step for step the placement sequence of the machine - exhaustive over the 48 sizes. (c) Trace_Geom: values - rendered pixels of random/encoded codeword vectors equal the spec's placement applied to the codewords, corner pattern, read-back.",
        "level_note": "Trusts: Placement.tla as transcription of Annex F / ISO 21471 (cross-checked against the repository's three golden layouts by the trace itself).",
        "mc": ["MC_Placement"],
        # a parsed matrix that is rendered again must put every codeword bit back into the same module
        "jobs": [PLACE_JOB, dict(GEOM_JOB, clause_map={"C08.rerender": "C07.rerender"})],
        "rule": "place: one case per symbol size (48), one event per codeword visit (13,6xx events); geom: 2 codeword vectors per size (random and encoder output); non-trivial = every case; distinct = (size, vector)",
        "assumptions": ["value independence is probed with 2 (quick) / 4 (thorough) vectors per size on top of the value-free traversal trace"],
        "exhaustive_quick": True, "exhaustive_thorough": True,
    },
    "C08": {
        "level_text": "Trace_Geom: forward - every pixel of the rendering of 2-4 codeword vectors per size is compared with Render.tla (finder, clock, alignment bars, data, corner). Converse - deviation experiments: every single finder/clock/alignment/corner module of every size and (small sizes, thorough: all sizes) every data module flipped, plus random multi-module deviations, whole finder lines inverted, stray pixels / rows appended or removed; whatever is accepted must re-render to the same array; TLC decides by the kind of the flipped modules whether the parser must reject (Alignment/Padding) or accept with exactly the toggled codeword bits. Shape errors (ZeroWidth/DataSize/SymbolSize) in the shapes family.",
        "level_note": "Trusts: Render.tla geometry (validated forward against the implementation on all 48 sizes and by MC_Render on small sizes).",
        "jobs": [GEOM_JOB, {"family": "shapes", "spec": "Trace_Shapes"}],
        "rule": "one experiment = (size, base codewords, set of flipped modules) -> try_from_bits / decode; non-trivial = experiment with at least one flipped module; distinct = (case, event index)",
        "assumptions": [],
    },
})

PROPS["C12"] = {
    "mc": ["MC_SymbolList"],
    "level_text": "Trace_Sym: (a) the six observable attributes of all 48 sizes (dimensions, data and total codewords, is_square, is_dmre) are compared with the catalogue of Symbols.tla transcribed from ISO/IEC 16022 Table 7 / ISO 21471 (its ASSUMEs check module-count identity and uniqueness of dimensions); blocks and EC per block are pinned by the C06 run, region layout by C08. (b) SymbolList builder traces: every call is an action of the SymbolList machine; set, iteration order, is_empty, contains are compared after each call. (c) every Probe (ASCII-only encoding of n characters, n digits, 3n X12 characters, a Macro 05 envelope around digits sized at the list's largest symbol) must pick FirstBigEnough of the list's own order.",
    "level_note": "Trusts: Symbols.tla transcription. Width/height filters are enumerated for all bound kinds (unbounded/included/excluded) at every distinct dimension +-1 (thorough: 0..151).",
    "jobs": [{"family": "sym", "spec": "Trace_Sym", "coverage": True},
             # number of blocks / EC codewords per block: the encoder's output must be a codeword under the catalogue's interleaving
             {"family": "rs", "spec": "Trace_RS", "focus": "C12",
              "clause_map": {"C06.notCodeword": "C12.blockStructure", "C06.eccLen": "C12.eccCount", "C06.encodePanic": "C12.eccCount"}}],
    "rule": "one case = a sequence of builder calls (Default/Extended/Whitelist/From/EnforceSquare/EnforceRect/EnforceWidth/EnforceHeight/Extend) with Contains and Probe observations; systematic single filters on all base lists, random compositions of up to 4 filters, random whitelists with duplicates; non-trivial = every case; distinct = distinct call sequences",
    "assumptions": ["num_ecc_blocks / num_ecc_per_block are not observable on their own through the public API: pinned by C06 (syndromes under the spec's interleaving)"],
}

PROPS["C04"] = {
    "level_text": "Specification -> implementation: TLC enumerates EVERY behaviour of the strict reference encoder Writer.tla (all legal segmentations into mode runs, all end-of-symbol forms, Base256 with explicit and to-end-of-symbol length, EDIFACT unlatch at each position, macro/FNC1 headers, pads) for all inputs over a 12-byte class alphabet up to length 2 (thorough: 3) at capacities 3..16, all behaviours for ~620 targeted inputs (a body filling whole triples/groups x prefix length x one or two tail characters from every boundary of the ASCII codeword ranges), and random behaviours (-simulate, seeded) for short inputs over a 26-byte alphabet and for inputs up to 700 bytes; each printed stream is fed to decode_data (and decode_str when printable Latin-1) and must return the spec's input. MC_Codec checks Writer x Stream (reader) = identity beforehand.",
    "level_note": "Trusts: Writer.tla generates only conformant streams (cross-checked against the independent reader Stream.tla by MC_Codec). The verdict is an equality computed by the harness; the expected value comes from the specification.",
    "technique": "TLA+ Writer specification; TLC-generated behaviours (exhaustive + simulation) replayed into the implementation's decoder",
    "mc": ["MC_Codec"],
    "mc_thorough": ["MC_Codec_thorough"],
    "jobs": [{"family": "genw", "spec": "GenW", "custom": custom.c04_job}],
    "rule": "one case = one complete behaviour of Writer.tla (input, capacity, prefix, sequence of encoding actions) = one data codeword stream; distinct = distinct printed (expect, stream) lines; all are non-trivial",
    "assumptions": ["idle latch/unlatch pairs bounded by MaxIdle = 1 in the generator (unbounded in MC_Codec's tiny configuration)"],
}
PROPS["C10"] = {
    "technique": "TLA+ reference encoder explored by TLC below the implementation's symbol (witness = smaller valid encoding, confirmed by replay into the crate's decoder) + TLC trace validation",
    "level_text": "(A) closed forms on a fixed-seed case set of every input length: never a larger symbol than a closed-form legal encoding needs (ASCII with digit pairs; one Base256 field; ASCII with every high-byte run as one Base256 field; C40/Text/X12/EDIFACT throughout for messages of that scheme's native characters), TooMuch only if none of those fits, ties resolved by list order (clauses of Trace_Enc). (B) Writer exploration (Trace_Min): for a deterministic set of ~25k short cases (thorough ~200k) TLC runs the strict reference encoder against every listed capacity strictly below the implementation's choice (all if it refused); any completed behaviour is a valid smaller encoding. Each reported violation carries the witness stream, which the implementation's own decoder must decode to the input before it is reported.",
    "level_note": "Trusts: Writer.tla is a SUBSET of the conformant encodings (strict reading of the end-of-symbol rules; with ASCII disabled ASCII data only inside the standard's fallbacks), so a witness is a real smaller encoding. Known findings are identified by the specific input+configuration (KNOWN_FINDINGS.txt).",
    # both parts use a fixed generator seed: the planner is a heuristic, so random exploration could always turn up a
    # further genuine non-minimal input; known findings must be reproducible (identified by input), see DESIGN.md section 5
    "jobs": [dict(enc_job("C10A"), fixed_seed=20261003), {"family": "enc", "spec": "Trace_Min", "custom": custom.c10_min_job}],
    "rule": "(A) as C01 with the fixed generator seed 20261003 (VERIF_SEED is not used by this check); (B) same fixed seed: class-alphabet strings to length 3, boundary strings per class x tail, class pairs, envelope strings, random runs <= 40 bytes x lists x mode sets; non-trivial = encoder returned Ok or TooMuch; distinct = distinct (input, configuration)",
    "assumptions": ["optimality against ALL conformant encodings is decided only for inputs <= 40 bytes; longer inputs only against the closed forms"],
}

PROPS["C18"] = {
    "level_text": "Trace_Plan: every (Plan, Encode) pair of calls is judged by TLC: plan present whenever encoding succeeds; plan modes within the enabled set, positions non-increasing ending at 0; the reader of Stream.tla is stepped over the encoder's stream and the latches it sees must equal the plan's non-ASCII segments with at least one character; the encoder's symbol must not exceed the first listed symbol holding ceil(cost) codewords, where cost is read from the planner hook.",
    "level_note": "Trusts: planner hook reports the cost of the plan optimize() selected (cfg datamatrix_verif); Stream.tla reader.",
    "jobs": [{"family": "plan", "spec": "Trace_Plan", "focus": "C18", "coverage": True}],
    "rule": "one case = (input, list, modes) -> encodation_plan and encode_data (macros off); class-alphabet strings to length 3, boundary strings per class x tail (the end-of-data shapes), class pairs, random runs to 500 bytes; non-trivial = plan returned; distinct = (input, modes, list)",
    "assumptions": [],
}
PROPS["C19"] = {
    "technique": "TLA+ frontier machine (TLC model checking + Apalache inductive invariant); TLC trace validation of the planner hook events",
    "level_text": "Design: MC_Planner model-checks the frontier machine of Planner.tla for 2 modes (steps bounded by a constant per iteration, |alive| <= |modes|^2), and Apalache discharges the inductive invariant `steps <= 216 it + 6 /\\ alive subset of Modes x Modes` for 6 modes and ANY number of iterations (PlannerApa.tla: Init => IndInv, IndInv /\\ Next => IndInv'). Implementation: Trace_Planner validates the hook's per-iteration events against that machine with 6 modes: every live plan steps exactly once, <= 1 switch call per plan, <= 5 spawned per call, no duplicate (start,current) pair after pruning, <= 36 alive, cumulative candidate steps <= 216 (it+1) + 6; the summed planner work of one encode_data() call (all optimize() invocations) obeys the same bound; wall time per call <= 10 s and a 20 s watchdog; a step budget in the hook stops exponential planners.",
    "level_note": "Trusts: the hook counts (cfg datamatrix_verif) are taken inside optimize() at the pruning point.",
    "mc": ["MC_Planner", "PlannerInductive"],
    "jobs": [{"family": "plan", "spec": "Trace_Planner", "focus": "C19", "coverage": True}],
    "rule": "one case = one optimize() call on an adversarial input: 20 alternation patterns at lengths 1..3000 (thorough ..3200) x {default, smallest, largest singleton, all} lists x mode sets, random strings over the class alphabet and random runs; recorded in chunks of 150 iterations; non-trivial = every chunk; distinct = (case, chunk)",
    "assumptions": ["non-termination is observed as watchdog expiry / step budget, not proved impossible"],
}

BOTH = ("release", "checked")
PROPS["C05"] = {
    "level_text": "All five decoding entry points, in the release profile and in a profile with overflow checks and debug assertions; every call runs under catch_unwind and a watchdog and its outcome is an event; the trace specifications have no action for a panic or hang. Inputs are aimed by the specification at the thin sets: RS words with prescribed zero patterns of the syndrome vector (all 2^k patterns for k <= 7, single/double/alternating/leading zeros otherwise, built by solving the Vandermonde system), multiples of prod_{i<=m}(x-alpha^i) for every m, words beyond capacity; all codeword streams of length <= 2, <h,x,y> for every special codeword h, all ECI designator forms, every byte under every character set, every Base256 length form against payloads one to three bytes short or long, the crate's own encoder output cut at every position and with single codewords replaced by special values, random streams; pixel arrays of every width 0..150 with matching and non-matching lengths, arrays far beyond 144 x 144 whose dimensions alias a real symbol modulo 256, every single finder module of every size flipped, random multi-flips.",
    "level_note": "Trusts: catch_unwind + panic hook observe every panic; a hang is a 20 s watchdog expiry. TLC recomputes the syndromes of every received word, so the evidence reports which zero patterns were really presented.",
    "jobs": [rs_job("C05", BOTH),
             {"family": "dec", "spec": "Trace_Dec", "profiles": BOTH, "coverage": True},
             {"family": "shapes", "spec": "Trace_Shapes", "profiles": BOTH},
             {"family": "geom", "spec": "Trace_Geom", "profiles": ("checked",)}],
    "rule": "one case = one call (or one batch of 256 calls) of decode_error / decode_data / decode_str / try_from_bits / decode with an input chosen as described; non-trivial = every case; distinct = (family, case id, profile)",
    "assumptions": ["non-termination is observed, not proved impossible"],
}
STR_JOB = {"family": "str", "spec": "Trace_Str", "coverage": True}
PROPS["C14"] = {
    "level_text": "Trace_Str: encode_str -> the reader of Stream.tla is stepped over the produced codewords and must yield the Latin-1 bytes with no ECI, or ECI 26 at the body start followed by Utf8(string) (macro envelope recognised on the bytes); decode_str must return the same code points. Helper tables: utf8_to_latin1 for every scalar value (batches of 4096; thorough: all 272 batches), latin1_to_utf8 for all 256 bytes, mutual inverse on random byte strings.",
    "level_note": "Trusts: Charsets.tla (Latin-1 = identity on 0xA0..0xFF, generated from Python's codecs), Utf8 encoder in TLA+ (ASSUME-tested at the boundaries).",
    "jobs": [dict(STR_JOB, focus="C14")],
    "rule": "strings over 16 representative code points (ASCII, controls, C1, Latin-1 supplement, BMP, U+FFFF, astral) up to length 3, random strings to 600 scalars, macro 05/06 enveloped bodies of every class x tail shape; non-trivial = encode_str succeeded; distinct = (code points, macro flag)",
    "assumptions": [],
}
PROPS["C15"] = {
    "level_text": "Trace_Str: (a) the designator written for ECI numbers 0..17500 and every 61st up to 999999 (thorough: all 1,000,000) equals EciCodewords(n); (b) decode_str on 241 + every one-, two- and (quick: boundary second codewords; thorough: all) three-codeword sequence + 'A' must be accepted iff the sequence is a designator (third codeword 0 and 255 rejected) with the supported/unsupported class of its value; (c) every byte 0..255 under ECI 0/3/11/13/26/27 and without ECI, ASCII- and Base256-encoded, must decode to exactly the character of Charsets.tla or CharsetError; (d) ECI 26: all one- and two-byte sequences, boundary three/four-byte sequences and random sequences are accepted iff Utf8Valid and decoded to the same code points.",
    "level_note": "Trusts: Eci.tla (5.2.4.7 forms), Charsets.tla tables generated from Python's codecs (spec/gen_charsets.py).",
    "jobs": [dict(STR_JOB, focus="C15")],
    "rule": "batches of 1000 ECI numbers / 256 designator or byte values per event; non-trivial = every batch; distinct = case id",
    "assumptions": ["the ECI number read back is observable only through the character set behaviour (supported / unsupported / rejected)"],
    "exhaustive_thorough": True,
}

PROPS["C17"] = {
    "level_text": "Trace_Path: the segment list of Bitmap::path() is replayed segment by segment through the pen machine of Path.tla (one TLC state per segment; step invariants: axis-parallel, non-zero, inside the bounding box, Move only directly after Close and relative to the closed sub-path's start, no empty sub-path); terminal predicate: all sub-paths closed and the even-odd fill (per-row prefix parity of toggled unit edges) equals the dark modules. Bitmap::pixels and Bitmap::unicode are compared with their closed forms. Exhaustive over all w x h arrays with dark top-left for w*h <= 12 (thorough: 16).",
    "level_note": "Trusts: Path.tla pen semantics = SVG/PDF relative path semantics with the even-odd rule.",
    "jobs": [{"family": "path", "spec": "Trace_Path", "coverage": True}],
    "rule": "all bitmaps with dark top-left module and w*h <= 12 (16), nested rings / checkerboards / frames with islands up to 12x12, random arrays up to 40x40 (odd and even dimensions) at densities 0.2-0.8, encoder output for all 48 sizes, QR-sized and larger bitmaps (177x177 .. 600x64); non-trivial = bitmaps with at least two dark modules; distinct = distinct (w, pixels)",
    "assumptions": [],
}

MC = {
    "MC_Codec": {"spec": "MC_Codec", "must_take": ["Write", "StartRead", "Read"], "timeout": 7200},
    "MC_Codec_thorough": {"spec": "MC_Codec", "cfg": "MC_Codec_thorough.cfg", "must_take": ["Write", "StartRead", "Read"], "timeout": 10800},
    "MC_Planner": {"spec": "MC_Planner", "must_take": ["PIterate"], "timeout": 3600},
    "PlannerInductive": {"apalache": True, "spec": "PlannerApa", "init": "PInit", "indinit": "IndInit", "next": "PNext", "inv": "IndInv", "timeout": 3600},
    "MC_Reader": {"spec": "MC_Reader", "must_take": ["Step"], "timeout": 5400},
    "MC_SymbolList": {"spec": "MC_SymbolList", "must_take": ["Next"], "timeout": 5400},
    "MC_Placement": {"spec": "MC_Placement", "must_take": ["Statement"], "timeout": 5400},
}
HOOK_COMMITS = ["d90b018"]
SETUP_MC = ["MC_Codec", "MC_Reader", "MC_Placement", "MC_Planner", "MC_SymbolList"]
NOT_YET = {}



def shorten(case):
    """a compact copy of a case record for the evidence samples"""
    def cut(x):
        if isinstance(x, list) and len(x) > 24:
            return x[:24] + ["... %d more" % (len(x) - 24)]
        if isinstance(x, dict):
            return {k: cut(v) for k, v in x.items()}
        if isinstance(x, list):
            return [cut(v) for v in x]
        return x
    return cut(case)


def describe(case):
    try:
        return _describe(case)
    except Exception:  # a description is a convenience, never a reason to fail
        return json.dumps({"id": case.get("id"), "fam": case.get("fam")})


def _describe(case):
    d = {k: case.get(k) for k in ("id", "fam", "stratum", "profile", "modes", "macro", "fnc1", "eci", "size") if k in case}
    if "input" in case:
        d["input"] = bytes(case["input"][:40]).decode("latin1")
        d["len"] = len(case["input"])
    if isinstance(case.get("list"), list):
        d["list"] = case["list"][:3] + (["..."] if len(case["list"]) > 3 else [])
    if case.get("events"):
        d["res"] = [json.dumps(e.get("res"))[:120] for e in case["events"][:2]]
    return json.dumps(d)


def account(pid, fam, case, verdict, ev):
    """evidence bookkeeping: strata, distinct non-trivial cases"""
    ev["strata"][case.get("stratum", fam)] += 1
    if fam == "enc":
        res = case["events"][0]["res"]
        ok = res.get("kind") == "Ok"
        key = (tuple(case["input"]), case["modes"], tuple(case["list"]), case["macro"], case["fnc1"], case["eci"], case.get("profile"))
        nontrivial = ok
        if pid == "C11":
            nontrivial = True
        elif pid == "C13":
            nontrivial = ok and case["modes"] != 63
        elif pid == "C16":
            inp = bytes(case["input"])
            nontrivial = inp.startswith(b"[)>\x1e0") or inp.endswith(b"\x1e\x04") or case["fnc1"]
        if nontrivial:
            ev["nontrivial"].add(hash(key))
        ev["notes"]["encode_" + res.get("kind", "?")] += 1
        if verdict.get("lenient"):
            ev["notes"]["reader_leniency_dangling_shift_at_unlatch"] += 1
        for m in set(verdict.get("latches", [])):
            ev["notes"]["streams_latching_" + m] += 1
    elif fam == "rs":
        res = case["events"][-1]["res"] if case["events"] else {}
        ev["notes"]["correct_" + str(res.get("kind"))] += 1
        ev["notes"]["size_" + case["size"]] += 1
        if pid == "C06":
            if any(case.get("sent", [])):
                ev["nontrivial"].add(hash((case["size"], tuple(case.get("sent", [])))))
        elif pid == "C03":
            if case.get("errs"):
                ev["nontrivial"].add(case["id"])
            info = verdict.get("info") or []
            if info and len(info) > 1:
                zs = info[1].values() if isinstance(info[1], dict) else info[1]
                for z in zs:
                    if z and case.get("stratum") == "zeroSyndromesWithin":
                        ev.setdefault("x_leading_zero_syndromes_within_capacity", collections.Counter())[str(z)] += 1
        else:
            info = verdict.get("info") or []
            if info and not info[0]:
                ev["nontrivial"].add(case["id"])
            if info and len(info) > 1:
                zs = info[1].values() if isinstance(info[1], dict) else info[1]
                for z in zs:
                    ev.setdefault("x_leading_zero_syndromes_presented", collections.Counter())[str(z)] += 1
    elif fam == "geom":
        for i, e in enumerate(case["events"]):
            ev["notes"]["event_" + e["ev"]] += 1
            if e["ev"] == "Flip":
                if e["flips"]:
                    ev["nontrivial"].add((case["id"], i))
                ev["notes"]["parse_" + e["parse"].get("kind", "?") + ("_" + e["parse"].get("err", "") if e["parse"].get("kind") == "Err" else "")] += 1
                ev["notes"]["decode_" + e["decode"].get("kind", "?")] += 1
            else:
                ev["nontrivial"].add((case["id"], i))
        ev["x_events_validated"] = ev.get("x_events_validated", 0) + len(case["events"])
    elif fam == "sym":
        ev["nontrivial"].add(hash(json.dumps([{k: v for k, v in e.items() if k in ("ev", "names", "lo", "hi", "n", "name", "size")} for e in case["events"]])))
        for e in case["events"]:
            ev["notes"]["event_" + e["ev"]] += 1
    elif fam == "plan":
        if "part" in case:
            ev["nontrivial"].add(case["id"])
            ev["x_iterations_validated"] = ev.get("x_iterations_validated", 0) + len(case["events"])
            ev["x_max_input_len"] = max(ev.get("x_max_input_len", 0), case["n"])
            ev["x_max_steps_seen"] = max(ev.get("x_max_steps_seen", 0), verdict.get("steps", 0))
        else:
            key = (tuple(case["input"]), case["modes"], tuple(case["list"]))
            kind = case["events"][0]["res"].get("kind")
            ev["notes"]["plan_" + str(kind)] += 1
            ev["notes"]["encode_" + str(case["events"][1]["res"].get("kind"))] += 1
            if kind == "Some":
                ev["nontrivial"].add(hash(key))
            for m in set(verdict.get("latches", [])):
                ev["notes"]["streams_latching_" + m] += 1
    elif fam in ("str", "dec"):
        ev["nontrivial"].add((fam, case["id"], case.get("profile", "")))
        for e in case["events"]:
            ev["notes"]["event_" + e["ev"]] += 1
            if e["ev"] == "DecodeBatch":
                ev["x_calls_in_batches"] = ev.get("x_calls_in_batches", 0) + 2 * e["n"]
            if e["ev"] == "EncodeEci":
                ev["x_eci_numbers"] = ev.get("x_eci_numbers", 0) + len(e["ns"])
    elif fam == "path":
        if sum(case["px"]) >= 2:
            ev["nontrivial"].add(hash((case["w"], tuple(case["px"]))))
        ev["x_segments_validated"] = ev.get("x_segments_validated", 0) + (len(case["path"].get("segs", [])) if case["path"].get("kind") == "Ok" else 0)
    elif fam == "place":
        ev["nontrivial"].add(case["id"])
        ev["x_events_validated"] = ev.get("x_events_validated", 0) + len(case["events"])
    else:
        ev["nontrivial"].add(case["id"])


def signatures(pid, case, verdict, clauses):
    """deterministic signature per violated clause (see KNOWN_FINDINGS.txt)"""
    sigs = []
    loc = "-"
    for e in case.get("events", []):
        r = e.get("res", {})
        if isinstance(r, dict) and r.get("kind") == "Panic":
            loc = r.get("loc", "?")
            break
    for c in clauses:
        if c == "C10.smallerFits":
            sigs.append("%s|%s" % (c, custom.case_key(case)))
        else:
            sigs.append("%s|%s" % (c, loc))
    return sigs
