"""Per-property configuration of the checks: which event families are generated, which trace
specification judges them, which model-checking configurations of the specification itself run first."""
import json

ENC_ACTIONS = "EvEncode ReadAscii ReadC40 ReadText ReadX12 ReadEdifact ReadB256 ReadFinish EvDecodeData EvDecodePixels EvPlan"


def enc_job(focus, profiles=("release",)):
    return {"family": "enc", "spec": "Trace_Enc", "focus": focus, "profiles": profiles}


PROPS = {
    "C01": {
        "level_text": 'Every recorded encode/decode case is a behaviour of Trace_Enc.tla: TLC replays the produced data codewords through the ISO 16022 reader and requires both decode results to equal the input; exhaustive over a class alphabet up to length 3 plus boundary/random/envelope strata.',
        "level_note": 'Trusts: the harness records results faithfully; class-alphabet assumption; pixel path relies on C07/C08 for Render/Place.',
        "jobs": [enc_job("C01")],
        "rule": "one case = (input bytes, symbol list, mode set, macro, FNC1) -> Encode -> decode_data(data codewords) and "
                "DataMatrix::decode(rendered pixels); strata: all strings over a 27-byte class alphabet up to length 3, boundary "
                "strings per character class x tail shape, class pairs, random runs (log-uniform lengths to 3300), macro envelope "
                "strings; a case is non-trivial if encoding succeeded; distinct = distinct (input, modes, list, macro, fnc1)",
        "assumptions": ["the mode encoders distinguish bytes only by the classes represented in the alphabet (random strata probe this)",
                        "pixels = Render(Place(codewords)) is established by C07/C08, not re-derived here"],
    },
    "C02": {
        "level_text": 'The produced stream is judged by an independent reader written in TLA+ from the standard (Stream.tla), stepped codeword by codeword by TLC, plus catalogue checks (size in list, data/ecc counts) from Symbols.tla.',
        "level_note": 'Trusts: Stream.tla/Symbols.tla transcriptions (cross-validated by MC_Codec, golden vectors, C04/C12 runs).',
        "jobs": [enc_job("C02")],
        "rule": "as C01 plus ECI numbers; every produced data codeword stream is read by the ISO/IEC 16022 reader of Stream.tla "
                "(one TLC step per codeword group); non-trivial = encoding succeeded",
        "assumptions": ["Stream.tla is a faithful transcription of ISO/IEC 16022 5.2 (validated by MC_Codec and the golden vectors)"],
    },
    "C11": {
        "level_text": 'Every outcome of every encoding entry point is an event; the trace specification has no action for panic/hang, and ties ListEmpty to the empty list; both build profiles.',
        "level_note": 'Trusts: catch_unwind + 20 s watchdog observe all panics/hangs.',
        "jobs": [enc_job("C11", ("release", "checked"))],
        "rule": "as C01 over all 64 mode sets, empty/singleton/pair lists, ECI numbers, both build profiles; non-trivial = distinct "
                "(input, configuration); every outcome must be Ok/TooMuch/ListEmpty and ListEmpty iff the list is empty",
        "assumptions": ["a hang is observed as a 20 s watchdog expiry"],
    },
    "C13": {
        "level_text": 'The reader action Latch(m) carries the guard m in Enabled and ASCII data is only admitted in the end-of-data tail when ASCII is disabled; checked on every produced stream.',
        "level_note": "Trusts: the tail rule is the widest reading of the standard's fallbacks (<=4 chars, <=4 codewords, after the last latch).",
        "jobs": [enc_job("C13")],
        "rule": "as C01 with 60% of the cases having ASCII disabled; the reader flags latches into disabled modes and ASCII data "
                "outside the end-of-data tail; non-trivial = encoding succeeded with a proper subset of the modes",
        "assumptions": ["tail rule: ASCII data only after the last non-ASCII run, <= 4 characters in <= 4 codewords"],
    },
    "C16": {
        "level_text": 'Iff-conditions for macro compaction and FNC1 start are clauses of the trace specification evaluated on every produced stream; envelope strata enumerate all prefix/near-miss shapes.',
        "level_note": 'Trusts: as C02.',
        "jobs": [enc_job("C16")],
        "rule": "as C01 with the envelope stratum tripled (both heads x trailer x bodies, every prefix of the bare envelope, near "
                "misses) x macro flag x FNC1 flag; non-trivial = input has a macro head or trailer or FNC1 was requested",
        "assumptions": [],
    },
}

MC = {}
HOOK_COMMITS = []
SETUP_MC = []
NOT_YET = {}



def shorten(case):
    """a compact copy of a case record for the evidence samples"""
    def cut(x):
        if isinstance(x, list) and len(x) > 24:
            return x[:24] + ["... %d more" % (len(x) - 24)]
        if isinstance(x, dict):
            return {k: cut(v) for k, v in x.items()}
        if isinstance(x, list):
            return [cut(v) for v in x]
        return x
    return cut(case)


def describe(case):
    d = {k: case.get(k) for k in ("id", "fam", "stratum", "profile", "modes", "macro", "fnc1", "eci", "size") if k in case}
    if "input" in case:
        d["input"] = bytes(case["input"][:40]).decode("latin1")
        d["len"] = len(case["input"])
    if "list" in case:
        d["list"] = case["list"][:3] + (["..."] if len(case["list"]) > 3 else [])
    if case.get("events"):
        d["res"] = [json.dumps(e.get("res"))[:120] for e in case["events"][:2]]
    return json.dumps(d)


def account(pid, fam, case, verdict, ev):
    """evidence bookkeeping: strata, distinct non-trivial cases"""
    ev["strata"][case.get("stratum", fam)] += 1
    if fam == "enc":
        res = case["events"][0]["res"]
        ok = res.get("kind") == "Ok"
        key = (tuple(case["input"]), case["modes"], tuple(case["list"]), case["macro"], case["fnc1"], case["eci"], case.get("profile"))
        nontrivial = ok
        if pid == "C11":
            nontrivial = True
        elif pid == "C13":
            nontrivial = ok and case["modes"] != 63
        elif pid == "C16":
            inp = bytes(case["input"])
            nontrivial = inp.startswith(b"[)>\x1e0") or inp.endswith(b"\x1e\x04") or case["fnc1"]
        if nontrivial:
            ev["nontrivial"].add(hash(key))
        ev["notes"]["encode_" + res.get("kind", "?")] += 1
        if verdict.get("lenient"):
            ev["notes"]["reader_leniency_dangling_shift_at_unlatch"] += 1
        for m in set(verdict.get("latches", [])):
            ev["notes"]["streams_latching_" + m] += 1
    else:
        ev["nontrivial"].add(case["id"])


def signatures(pid, case, verdict, clauses):
    """deterministic signature per violated clause (see KNOWN_FINDINGS.txt)"""
    sigs = []
    loc = "-"
    for e in case.get("events", []):
        r = e.get("res", {})
        if isinstance(r, dict) and r.get("kind") == "Panic":
            loc = r.get("loc", "?")
            break
    for c in clauses:
        sigs.append("%s|%s" % (c, loc))
    return sigs
