#!/bin/bash
# usage: bin/seed_confirm.sh <agent worktree> <property id>
# Confirms every mutant_i.diff/tests/demo_i.rs of a sub-agent in a scratch worktree of /repo's HEAD:
# patch applies, crate builds, the 167+9 existing tests pass, demo fails with the patch and passes without.
# Confirmed ones are stored as /verif/seeded/<id>-<i>/.
set -u
WT=$1; PID=$2; OFF=${3:-0}
V=/tmp/wt/verify-$PID
git -C /repo worktree add -q --detach $V HEAD || exit 2
mkdir -p $V/tests
for d in $WT/mutant_*.diff; do
  i=$(basename $d .diff | sed 's/mutant_//')
  demo=$WT/tests/demo_$i.rs
  [ -f "$demo" ] || { echo "$PID-$i: no demo"; continue; }
  cp $demo $V/tests/demo_$i.rs
  cd $V
  clean_demo=$(CARGO_NET_OFFLINE=true cargo test --offline --test demo_$i 2>&1 | grep -E "^test result" | head -1)
  if ! git apply --check $d 2>/dev/null; then echo "$PID-$i: patch does not apply to current HEAD"; rm tests/demo_$i.rs; continue; fi
  git apply $d
  suite=$( (CARGO_NET_OFFLINE=true cargo test --offline --lib 2>&1; CARGO_NET_OFFLINE=true cargo test --offline --doc 2>&1) | grep -E "^test result|^error(\[|:)" | tr '\n' ' ')
  mut_demo=$(CARGO_NET_OFFLINE=true cargo test --offline --test demo_$i 2>&1 | grep -E "^test result|^error(\[|:)" | head -1)
  git checkout -q -- src
  rm tests/demo_$i.rs
  echo "$PID-$i: clean_demo=[$clean_demo] suite=[$suite] mutant_demo=[$mut_demo]"
  if echo "$clean_demo" | grep -q "ok\." && echo "$suite" | grep -q "167 passed; 0 failed" && echo "$suite" | grep -q "9 passed; 0 failed" && ! echo "$suite" | grep -q "error" && echo "$mut_demo" | grep -q "FAILED"; then
    out=/verif/seeded/$PID-$((i+OFF)); mkdir -p $out
    cp $d $out/patch.diff; cp $demo $out/demo.rs
    echo "$PID-$((i+OFF)): CONFIRMED"
  else
    echo "$PID-$i: NOT CONFIRMED"
  fi
done
cd /; git -C /repo worktree remove --force $V
