#!/usr/bin/env python3
"""Writes seeded/<name>/meta.json from seeded/descriptions.json and seeded/RESULTS.txt (lines of bin/seed_run.sh)."""
import json, os, re
ROOT = os.path.dirname(os.path.dirname(os.path.abspath(__file__)))
desc = json.load(open(os.path.join(ROOT, "seeded", "descriptions.json")))
res = {}
rp = os.path.join(ROOT, "seeded", "RESULTS.txt")
if os.path.exists(rp):
    for line in open(rp):
        m = re.match(r"(\S+) (C\d+) exit=(\d+) violations=(\d+)(?: tier=(\w+))?", line.strip())
        if m:
            res.setdefault(m.group(1), {})[m.group(2) + ":" + (m.group(5) or "quick")] = {"exit": int(m.group(3)), "violations": int(m.group(4))}
rows = []
for name, (pid, change, needs) in sorted(desc.items()):
    d = os.path.join(ROOT, "seeded", name)
    if not os.path.isdir(d):
        continue
    r = res.get(name, {})
    caught = any(v["exit"] == 1 and v["violations"] > 0 for v in r.values())
    meta = {"property": pid, "change": change, "needs_to_manifest": needs,
            "confirmed_by": "bin/seed_confirm.sh / bin/seed_reconfirm.sh in a scratch worktree of /repo HEAD: patch applies, crate builds, "
                            "167 unit + 9 doc tests pass with the patch, demo.rs passes without and fails with the patch",
            "checked_with": "bin/seed_run.sh %s %s (scratch worktree + VERIF_REPO/VERIF_ALT, /repo untouched)" % (name, pid),
            "check_results": r, "detected": caught}
    json.dump(meta, open(os.path.join(d, "meta.json"), "w"), indent=1)
    rows.append((name, pid, caught, r))
for name, pid, caught, r in rows:
    print(name, "DETECTED" if caught else ("missed" if r else "not run"), r)

# update the table in DESIGN.md
dp = os.path.join(ROOT, "DESIGN.md")
txt = open(dp).read()
b, e = "<!-- SEED-TABLE-BEGIN -->", "<!-- SEED-TABLE-END -->"
if b in txt and e in txt:
    lines = ["| seeded defect | property | change | needs to manifest | quick check |", "|---|---|---|---|---|"]
    det = 0
    for name, pid, caught, r in rows:
        d = desc[name]
        status = "not run"
        if r:
            status = "DETECTED (%s)" % ", ".join("%s: %d violations" % (k.split(":")[0], v["violations"]) for k, v in r.items() if v["violations"]) if caught else "missed by the quick tier"
        det += 1 if caught else 0
        lines.append("| %s | %s | %s | %s | %s |" % (name, pid, d[1].replace("|", "\\|"), d[2].replace("|", "\\|"), status))
    lines.append("")
    lines.append("Detected by the registered quick check of the property it breaks: **%d of %d**." % (det, len(rows)))
    txt = txt[:txt.index(b) + len(b)] + "\n" + "\n".join(lines) + "\n" + txt[txt.index(e):]
    open(dp, "w").write(txt)
