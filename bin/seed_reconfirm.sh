#!/bin/bash
# usage: bin/seed_reconfirm.sh <name>...   re-validates /verif/seeded/<name>/{patch.diff,demo.rs} against /repo's HEAD
# in a scratch worktree: patch applies, 167 unit + 9 doc tests pass, demo passes without and fails with the patch.
set -u
V=/tmp/wt/reconfirm-$$
git -C /repo worktree add -q --detach $V HEAD || exit 2
mkdir -p $V/tests
cd $V
for NAME in "$@"; do
  D=/verif/seeded/$NAME
  cp $D/demo.rs tests/demo_x.rs
  clean_demo=$(CARGO_NET_OFFLINE=true cargo test --offline --test demo_x 2>&1 | grep -E "^test result" | head -1)
  if ! git apply --3way $D/patch.diff 2>/dev/null; then echo "$NAME: patch does not apply"; git reset -q --hard; rm -f tests/demo_x.rs; continue; fi
  suite=$( (CARGO_NET_OFFLINE=true cargo test --offline --lib 2>&1; CARGO_NET_OFFLINE=true cargo test --offline --doc 2>&1) | grep -E "^test result|error(\[|:)" | tr '\n' ' ')
  mut_demo=$(CARGO_NET_OFFLINE=true cargo test --offline --test demo_x 2>&1 | grep -E "^test result|error(\[|:)" | head -1)
  git reset -q --hard; rm -f tests/demo_x.rs
  if echo "$clean_demo" | grep -q "ok\." && echo "$suite" | grep -q "167 passed; 0 failed" && echo "$suite" | grep -q "9 passed; 0 failed" && ! echo "$suite" | grep -q "error" && echo "$mut_demo" | grep -q "FAILED"; then
    echo "$NAME: CONFIRMED"
  else
    echo "$NAME: NOT CONFIRMED clean_demo=[$clean_demo] suite=[$suite] mutant_demo=[$mut_demo]"
  fi
done
cd /; git -C /repo worktree remove --force $V
