#!/bin/bash
# usage: bin/seed_run.sh <seed dir name> <property id> [more property ids...]
# Sensitivity experiment: applies /verif/seeded/<name>/patch.diff to a scratch worktree of /repo's HEAD (under /tmp),
# runs the quick check(s) against that tree (VERIF_REPO/VERIF_ALT, outputs under run/alt-<name>/), removes the worktree.
set -u
NAME=$1; shift
P=/verif/seeded/$NAME/patch.diff
WT=/tmp/wt/seedrun-$NAME
git -C /repo worktree add -q --detach $WT HEAD || exit 2
if ! git -C $WT apply --3way $P 2>/dev/null; then echo "$NAME: patch does not apply"; git -C /repo worktree remove --force $WT; exit 2; fi
for PID in "$@"; do
  out=$(cd /verif && VERIF_REPO=$WT VERIF_ALT=$NAME timeout 1800 bin/check $PID --tier ${SEED_TIER:-quick} 2>/dev/null)
  rc=$?
  nv=$(echo "$out" | grep -c "^VIOLATION property=$PID")
  echo "$NAME $PID exit=$rc violations=$nv"
done
git -C /repo worktree remove --force $WT
rm -rf /verif/run/alt-$NAME/harness/target
