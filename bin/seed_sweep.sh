#!/bin/bash
# usage: bin/seed_sweep.sh [names...]   runs every seeded defect (default: all) against its property's quick check,
# two at a time; appends the result lines to seeded/RESULTS.txt
cd /verif
names=("$@")
if [ ${#names[@]} -eq 0 ]; then names=($(ls seeded | grep -E '^C[0-9]+-[0-9]+$' | sort -V)); fi
printf '%s\n' "${names[@]}" | xargs -P 2 -I{} bash -c 'n={}; p=${n%-*}; bin/seed_run.sh $n $p 2>/dev/null | grep -E "^C[0-9]+-[0-9]+ " >> seeded/RESULTS.txt'
