"""setup / selftest entry points of bin/check"""
import os, json, copy


def setup(drv):
    # build is done by the caller; run the specification's own model-checking configurations once
    import props
    os.makedirs(os.path.join(drv.RUN, "mc"), exist_ok=True)
    for name in props.SETUP_MC:
        ev = {"states": 0, "transitions": 0, "mc": {}}
        drv.run_mc(name, os.path.join(drv.RUN, "mc"), ev, "quick")
        drv.log("setup: MC %s ok: %s" % (name, {k: v for k, v in ev["mc"][name].items() if k != "actions"}))
    return 0


def _first(path, pred):
    for line in open(path):
        r = json.loads(line)
        if pred(r):
            return r
    raise drv_error("no suitable case in " + path)


def drv_error(msg):
    return RuntimeError(msg)


def selftest(drv):
    """Binding demonstration: for each trace family take one recorded case that the specification accepts,
    corrupt ONE logged field (or drop one hook event) and require that TLC rejects the corrupted case while it
    still accepts the original.  Exit 0 iff every corruption is rejected."""
    work = os.path.join(drv.RUN, "selftest")
    os.makedirs(work, exist_ok=True)
    bins = drv.build(("release",))
    b = bins["release"]
    results = []

    def judge(spec, cases):
        path = os.path.join(work, "in.ndjson")
        with open(path, "w") as f:
            for c in cases:
                f.write(json.dumps(c) + "\n")
        out, gen, dist, secs = drv.run_tlc(spec, spec + ".cfg", {"TRACE": path}, work, workers=4)
        return {v["id"]: v["fails"] for v in drv.verdict_lines(out)}

    def experiment(name, spec, original, corrupted):
        original = copy.deepcopy(original)
        corrupted = copy.deepcopy(corrupted)
        original["id"], corrupted["id"] = 1, 2
        v = judge(spec, [original, corrupted])
        ok = v.get(1) == [] and len(v.get(2, [])) > 0
        results.append((name, ok, v.get(1), v.get(2)))
        drv.log("selftest %-34s original=%s corrupted=%s -> %s" % (name, v.get(1), v.get(2), "ok" if ok else "NOT REJECTED"))

    # enc family
    t = os.path.join(work, "enc.ndjson")
    drv.generate(b, "enc", t, "quick", 1, "C01")
    c = _first(t, lambda r: r["events"][0]["res"].get("kind") == "Ok" and len(r["input"]) >= 6 and r["eci"] < 0 and r["modes"] == 63)
    k = copy.deepcopy(c); k["events"][0]["res"]["data"][1] ^= 1
    experiment("enc: one data codeword changed", "Trace_Enc", c, k)
    k = copy.deepcopy(c); k["events"][0]["res"]["size"] = "Square144"
    experiment("enc: symbol size name changed", "Trace_Enc", c, k)
    k = copy.deepcopy(c); k["events"][1]["res"]["bytes"][0] ^= 1
    experiment("enc: decode_data result changed", "Trace_Enc", c, k)
    k = copy.deepcopy(c); k["events"][0]["res"] = {"kind": "Panic", "loc": "x.rs:1", "msg": "boom"}; k["events"] = [k["events"][0], k["events"][-1]]
    experiment("enc: outcome replaced by a panic", "Trace_Enc", c, k)
    c2 = _first(t, lambda r: r["events"][0]["res"].get("kind") == "Ok" and r["modes"] == 63 and 230 in r["events"][0]["res"]["data"][:2])
    k = copy.deepcopy(c2); k["modes"] = 61  # C40 disabled in the configuration
    experiment("enc: used mode marked disabled", "Trace_Enc", c2, k)
    # rs family
    t = os.path.join(work, "rs.ndjson")
    drv.generate(b, "rs", t, "quick", 1, "C03")
    c = _first(t, lambda r: r["size"] == "Square52" and len(r.get("errs", [])) >= 2)
    k = copy.deepcopy(c); k["sent"][-1] ^= 1
    experiment("rs: last ecc codeword changed", "Trace_RS", c, k)
    k = copy.deepcopy(c); k["events"][-1]["res"]["fix"] = k["events"][-1]["res"]["fix"][:-1]
    experiment("rs: one correction dropped", "Trace_RS", c, k)
    # place family
    t = os.path.join(work, "place.ndjson")
    drv.generate(b, "place", t, "quick", 1, "C07")
    c = _first(t, lambda r: r["size"] == "Rect8x32")
    k = copy.deepcopy(c); ce = k["events"][7]["cells"]; ce[0], ce[1] = ce[1], ce[0]
    experiment("place: two cells of a visit swapped", "Trace_Place", c, k)
    k = copy.deepcopy(c); del k["events"][5]
    experiment("place: one visit event dropped", "Trace_Place", c, k)
    # geom family
    t = os.path.join(work, "geom.ndjson")
    drv.generate(b, "geom", t, "quick", 1, "C08")
    c = _first(t, lambda r: r["size"] == "Square12" and r["events"][0]["ev"] == "Render")
    c = dict(c); c["events"] = c["events"][:12]
    k = copy.deepcopy(c); k["events"][0]["res"]["px"][0] ^= 1
    experiment("geom: one finder pixel changed", "Trace_Geom", c, k)
    k = copy.deepcopy(c)
    for e in k["events"]:
        if e["ev"] == "Flip" and e["flips"] and e["parse"]["kind"] == "Err":
            e["parse"] = {"kind": "Ok", "size": "Square12", "len": 12, "diff": [], "rerenderWidth": 12, "rerenderDiff": 0}
            break
    experiment("geom: rejected deviation marked ok", "Trace_Geom", c, k)
    # plan family (hook events)
    t = os.path.join(work, "plan19.ndjson")
    drv.generate(b, "plan", t, "quick", 1, "C19")
    c = _first(t, lambda r: len(r["events"]) >= 20)
    k = copy.deepcopy(c); del k["events"][10]
    experiment("plan: one hook Iterate event dropped", "Trace_Planner", c, k)
    k = copy.deepcopy(c); k["events"][10]["alive"].append(k["events"][10]["alive"][0]); k["events"][10]["aliveCount"] += 1
    experiment("plan: duplicate (start,current) pair", "Trace_Planner", c, k)
    t = os.path.join(work, "plan18.ndjson")
    drv.generate(b, "plan", t, "quick", 1, "C18")
    c = _first(t, lambda r: r["events"][0]["res"].get("kind") == "Some" and r["events"][1]["res"].get("kind") == "Ok"
               and any(m != "ascii" for _, m in r["events"][0]["res"]["plan"][:-1])
               and r["caps"][r["list"].index(r["events"][1]["res"]["size"])] > r["caps"][0])
    k = copy.deepcopy(c); k["events"][0]["hook"]["chosen"]["cost12"] = 12
    experiment("plan: hook cost lowered to 1 codeword", "Trace_Plan", c, k)
    # sym family
    t = os.path.join(work, "sym.ndjson")
    drv.generate(b, "sym", t, "quick", 1, "C12")
    c = _first(t, lambda r: r["stratum"] == "ops" and any(e["ev"] == "Probe" and e["res"]["kind"] == "Ok" for e in r["events"]))
    k = copy.deepcopy(c)
    for e in k["events"]:
        if e["ev"] == "Probe" and e["res"]["kind"] == "Ok":
            e["res"]["size"] = "Square144" if e["res"]["size"] != "Square144" else "Square132"
            break
    experiment("sym: probe picked another symbol", "Trace_Sym", c, k)
    # path family
    t = os.path.join(work, "path.ndjson")
    drv.generate(b, "path", t, "quick", 1, "C17")
    c = _first(t, lambda r: r["path"]["kind"] == "Ok" and len(r["path"]["segs"]) >= 8)
    k = copy.deepcopy(c); del k["path"]["segs"][3]
    experiment("path: one segment dropped", "Trace_Path", c, k)
    # str family
    t = os.path.join(work, "str.ndjson")
    drv.generate(b, "str", t, "quick", 1, "C14")
    c = _first(t, lambda r: r.get("stratum") == "random" and len(r["events"]) == 2 and r["events"][1]["res"].get("k") == "ok" and len(r["cps"]) > 3)
    k = copy.deepcopy(c); k["events"][1]["res"]["cps"][0] += 1
    experiment("str: decoded string changed", "Trace_Str", c, k)
    bad = [r for r in results if not r[1]]
    print("selftest: %d corruptions, %d rejected" % (len(results), len(results) - len(bad)))
    return 0 if not bad else 1
