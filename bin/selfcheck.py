"""setup / selftest entry points of bin/check"""
import os


def setup(drv):
    # build is done by the caller; run the specification's own model-checking configurations once
    import props
    os.makedirs(os.path.join(drv.RUN, "mc"), exist_ok=True)
    for name in props.SETUP_MC:
        ev = {"states": 0, "transitions": 0, "mc": {}}
        drv.run_mc(name, os.path.join(drv.RUN, "mc"), ev, "quick")
        drv.log("setup: MC %s ok: %s" % (name, {k: v for k, v in ev["mc"][name].items() if k != "actions"}))
    return 0


def selftest(drv):
    drv.log("selftest: not implemented yet")
    return 0
