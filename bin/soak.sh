#!/bin/bash
# usage: bin/soak.sh <tier> <seed>...   runs every registered check with the given seeds; prints one line per run
TIER=$1; shift
for seed in "$@"; do
  for p in $(python3 -c "import json;print(' '.join(c['property_id'] for c in json.load(open('MANIFEST.json'))['checks']))"); do
    t0=$(date +%s)
    out=$(VERIF_SEED=$seed bin/check $p --tier $TIER 2>run/soak-$p-$seed.err)
    rc=$?
    echo "seed=$seed $p exit=$rc violations=$(echo "$out" | grep -c '^VIOLATION') known=$(echo "$out" | grep -c '^KNOWN-FINDING') secs=$(( $(date +%s) - t0 ))"
    if [ $rc -ne 0 ]; then echo "$out" | grep '^VIOLATION' | head -3; tail -5 run/soak-$p-$seed.err; fi
  done
done
