//! The ECC 200 catalogue (ISO/IEC 16022 Table 7, ISO/IEC 21471), used by the generators only to
//! *aim* cases (block structure, geometry).  Verdicts never rely on it: TLC recomputes everything
//! from spec/Symbols.tla.
pub struct Sym {
    pub name: &'static str,
    pub rows: usize,
    pub cols: usize,
    pub data: usize,
    pub ec: usize,
    pub blocks: usize,
    pub rrows: usize,
    pub rcols: usize,
}

macro_rules! s {
    ($n:expr, $r:expr, $c:expr, $d:expr, $e:expr, $b:expr, $rr:expr, $rc:expr) => {
        Sym { name: $n, rows: $r, cols: $c, data: $d, ec: $e, blocks: $b, rrows: $rr, rcols: $rc }
    };
}

pub const CATALOGUE: [Sym; 48] = [
    s!("Square10", 10, 10, 3, 5, 1, 1, 1),
    s!("Square12", 12, 12, 5, 7, 1, 1, 1),
    s!("Square14", 14, 14, 8, 10, 1, 1, 1),
    s!("Square16", 16, 16, 12, 12, 1, 1, 1),
    s!("Square18", 18, 18, 18, 14, 1, 1, 1),
    s!("Square20", 20, 20, 22, 18, 1, 1, 1),
    s!("Square22", 22, 22, 30, 20, 1, 1, 1),
    s!("Square24", 24, 24, 36, 24, 1, 1, 1),
    s!("Square26", 26, 26, 44, 28, 1, 1, 1),
    s!("Square32", 32, 32, 62, 36, 1, 2, 2),
    s!("Square36", 36, 36, 86, 42, 1, 2, 2),
    s!("Square40", 40, 40, 114, 48, 1, 2, 2),
    s!("Square44", 44, 44, 144, 56, 1, 2, 2),
    s!("Square48", 48, 48, 174, 68, 1, 2, 2),
    s!("Square52", 52, 52, 204, 42, 2, 2, 2),
    s!("Square64", 64, 64, 280, 56, 2, 4, 4),
    s!("Square72", 72, 72, 368, 36, 4, 4, 4),
    s!("Square80", 80, 80, 456, 48, 4, 4, 4),
    s!("Square88", 88, 88, 576, 56, 4, 4, 4),
    s!("Square96", 96, 96, 696, 68, 4, 4, 4),
    s!("Square104", 104, 104, 816, 56, 6, 4, 4),
    s!("Square120", 120, 120, 1050, 68, 6, 6, 6),
    s!("Square132", 132, 132, 1304, 62, 8, 6, 6),
    s!("Square144", 144, 144, 1558, 62, 10, 6, 6),
    s!("Rect8x18", 8, 18, 5, 7, 1, 1, 1),
    s!("Rect8x32", 8, 32, 10, 11, 1, 1, 2),
    s!("Rect12x26", 12, 26, 16, 14, 1, 1, 1),
    s!("Rect12x36", 12, 36, 22, 18, 1, 1, 2),
    s!("Rect16x36", 16, 36, 32, 24, 1, 1, 2),
    s!("Rect16x48", 16, 48, 49, 28, 1, 1, 2),
    s!("Rect8x48", 8, 48, 18, 15, 1, 1, 2),
    s!("Rect8x64", 8, 64, 24, 18, 1, 1, 4),
    s!("Rect8x80", 8, 80, 32, 22, 1, 1, 4),
    s!("Rect8x96", 8, 96, 38, 28, 1, 1, 4),
    s!("Rect8x120", 8, 120, 49, 32, 1, 1, 6),
    s!("Rect8x144", 8, 144, 63, 36, 1, 1, 6),
    s!("Rect12x64", 12, 64, 43, 27, 1, 1, 4),
    s!("Rect12x88", 12, 88, 64, 36, 1, 1, 4),
    s!("Rect16x64", 16, 64, 62, 36, 1, 1, 4),
    s!("Rect20x36", 20, 36, 44, 28, 1, 1, 2),
    s!("Rect20x44", 20, 44, 56, 34, 1, 1, 2),
    s!("Rect20x64", 20, 64, 84, 42, 1, 1, 4),
    s!("Rect22x48", 22, 48, 72, 38, 1, 1, 2),
    s!("Rect24x48", 24, 48, 80, 41, 1, 1, 2),
    s!("Rect24x64", 24, 64, 108, 46, 1, 1, 4),
    s!("Rect26x40", 26, 40, 70, 38, 1, 1, 2),
    s!("Rect26x48", 26, 48, 90, 42, 1, 1, 2),
    s!("Rect26x64", 26, 64, 118, 50, 1, 1, 4),
];

impl Sym {
    pub fn total(&self) -> usize {
        self.data + self.ec * self.blocks
    }
    /// indices (0-based, into data ++ ecc) of block b, highest-degree coefficient first
    pub fn block_positions(&self, b: usize) -> Vec<usize> {
        let mut v: Vec<usize> = (b..self.data).step_by(self.blocks).collect();
        v.extend((b..self.ec * self.blocks).step_by(self.blocks).map(|i| self.data + i));
        v
    }
    pub fn ndata_in_block(&self, b: usize) -> usize {
        (b..self.data).step_by(self.blocks).count()
    }
}

pub fn by_name(n: &str) -> Option<&'static Sym> {
    CATALOGUE.iter().find(|s| s.name == n)
}

// ---- independent GF(256) arithmetic (polynomial x^8+x^5+x^3+x^2+1 = 0x12D), generation only ----
pub struct Gf {
    pub alog: [u8; 255],
    pub log: [u8; 256],
}
impl Gf {
    pub fn new() -> Self {
        let mut alog = [0u8; 255];
        let mut log = [0u8; 256];
        let mut p: u16 = 1;
        for i in 0..255 {
            alog[i] = p as u8;
            log[p as usize] = i as u8;
            p <<= 1;
            if p & 0x100 != 0 {
                p ^= 0x12D;
            }
        }
        Gf { alog, log }
    }
    pub fn mul(&self, a: u8, b: u8) -> u8 {
        if a == 0 || b == 0 {
            0
        } else {
            self.alog[(self.log[a as usize] as usize + self.log[b as usize] as usize) % 255]
        }
    }
    pub fn pow(&self, i: usize) -> u8 {
        self.alog[i % 255]
    }
    /// multiply polynomial (highest degree first) by (x - alpha^i)
    pub fn mul_root(&self, p: &[u8], i: usize) -> Vec<u8> {
        let r = self.pow(i);
        let mut out = vec![0u8; p.len() + 1];
        for (j, c) in p.iter().enumerate() {
            out[j] ^= *c;
            out[j + 1] ^= self.mul(*c, r);
        }
        out
    }
    /// prod_{i=1..m} (x - alpha^i), highest degree first
    pub fn root_poly(&self, m: usize) -> Vec<u8> {
        let mut p = vec![1u8];
        for i in 1..=m {
            p = self.mul_root(&p, i);
        }
        p
    }
    pub fn inv(&self, a: u8) -> u8 {
        self.alog[(255 - self.log[a as usize] as usize) % 255]
    }
    /// error values e_0..e_{k-1} (e_d = coefficient of x^d) with sum_d e_d alpha^(j d) = syn[j-1], j = 1..k
    pub fn solve_syndromes(&self, syn: &[u8]) -> Option<Vec<u8>> {
        let k = syn.len();
        let mut a: Vec<Vec<u8>> = (1..=k).map(|j| (0..k).map(|d| self.pow(j * d)).collect()).collect();
        let mut b = syn.to_vec();
        for col in 0..k {
            let piv = (col..k).find(|r| a[*r][col] != 0)?;
            a.swap(col, piv);
            b.swap(col, piv);
            let inv = self.inv(a[col][col]);
            for c in col..k {
                a[col][c] = self.mul(a[col][c], inv);
            }
            b[col] = self.mul(b[col], inv);
            for r in 0..k {
                if r != col && a[r][col] != 0 {
                    let f = a[r][col];
                    for c in col..k {
                        let t = self.mul(f, a[col][c]);
                        a[r][c] ^= t;
                    }
                    let t = self.mul(f, b[col]);
                    b[r] ^= t;
                }
            }
        }
        Some(b)
    }
    /// error values y_1..y_w (all non-zero if possible) for the given degrees such that the syndromes
    /// S_1..S_m of the error polynomial sum_i y_i x^{deg_i} vanish (m < w)
    pub fn values_with_zero_syndromes(&self, degs: &[usize], m: usize, seed_vals: &[u8]) -> Option<Vec<u8>> {
        let w = degs.len();
        if m >= w {
            return None;
        }
        // choose the last w-m values freely, solve for the first m: sum_{i<m} y_i a^{j d_i} = - sum_{i>=m} y_i a^{j d_i}
        let mut a: Vec<Vec<u8>> = (1..=m).map(|j| (0..m).map(|i| self.pow(j * degs[i])).collect()).collect();
        let mut b: Vec<u8> = (1..=m)
            .map(|j| (m..w).fold(0u8, |acc, i| acc ^ self.mul(seed_vals[i - m], self.pow(j * degs[i]))))
            .collect();
        for col in 0..m {
            let piv = (col..m).find(|r| a[*r][col] != 0)?;
            a.swap(col, piv);
            b.swap(col, piv);
            let inv = self.inv(a[col][col]);
            for c in col..m {
                a[col][c] = self.mul(a[col][c], inv);
            }
            b[col] = self.mul(b[col], inv);
            for r in 0..m {
                if r != col && a[r][col] != 0 {
                    let f = a[r][col];
                    for c in col..m {
                        let t = self.mul(f, a[col][c]);
                        a[r][c] ^= t;
                    }
                    let t = self.mul(f, b[col]);
                    b[r] ^= t;
                }
            }
        }
        let mut y = b;
        y.extend_from_slice(&seed_vals[..w - m]);
        if y.iter().any(|v| *v == 0) {
            return None;
        }
        Some(y)
    }
}
