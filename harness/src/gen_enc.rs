//! "enc" family: Configure . Encode(data) . DecodeData(stream) . DecodePixels(bitmap) . Plan(data)
//! One ndjson record per case.  Used by C01 C02 C10(bounds) C11 C13 C16.
use crate::strings::*;
use crate::util::*;
use datamatrix::{data, DataMatrix, DataMatrixBuilder, SymbolList, SymbolSize};
use serde_json::{json, Value};

#[derive(Clone)]
pub struct EncCase {
    /// order in which the four builder setters are called (a permutation of 0..4)
    pub order: [u8; 4],
    pub stratum: &'static str,
    pub input: Vec<u8>,
    pub modes: u8,
    pub list: Vec<SymbolSize>,
    pub macros: bool,
    pub fnc1: bool,
    pub eci: i64,
}

pub const ECI_LIST: [i64; 9] = [0, 3, 26, 126, 127, 16382, 16383, 70000, 999999];

fn ascii_size(d: &[u8]) -> usize {
    let mut i = 0;
    let mut n = 0;
    while i < d.len() {
        if i + 1 < d.len() && d[i].is_ascii_digit() && d[i + 1].is_ascii_digit() {
            i += 2;
            n += 1;
        } else {
            n += if d[i] < 128 { 1 } else { 2 };
            i += 1;
        }
    }
    n
}

pub struct CfgGen {
    pub sizes: Vec<SymbolSize>, // all 48, capacity order
    #[allow(dead_code)]
    pub caps: Vec<usize>,
    pub default: Vec<SymbolSize>,
}

impl CfgGen {
    pub fn new() -> Self {
        let sizes = all_sizes();
        let caps = sizes.iter().map(|s| capacity_of(*s)).collect();
        CfgGen {
            sizes,
            caps,
            default: {
                let d = SymbolList::default();
                all_sizes().into_iter().filter(|s| d.contains(s)).collect()
            },
        }
    }

    pub fn list(&self, rng: &mut Rng, input: &[u8], allow_empty: bool) -> Vec<SymbolSize> {
        let est = ascii_size(input).max(1);
        let r = rng.below(100);
        let near = |rng: &mut Rng, pool: &[SymbolSize]| -> usize {
            // index of a size whose capacity is around the estimate (estimate may be far too big)
            let scale = [1usize, 1, 2, 3][rng.below(4)];
            let target = (est * 2 / (scale + 1)).max(1);
            let mut idx = pool.len() - 1;
            for (i, s) in pool.iter().enumerate() {
                if capacity_of(*s) >= target {
                    idx = i;
                    break;
                }
            }
            let lo = idx.saturating_sub(2);
            let hi = (idx + 2).min(pool.len() - 1);
            rng.range(lo, hi)
        };
        if allow_empty && r < 4 {
            return vec![];
        }
        match r {
            0..=39 => self.default.clone(),
            40..=49 => self.sizes.clone(),
            50..=69 => {
                let pool = if rng.chance(1, 3) { &self.sizes } else { &self.default };
                vec![pool[near(rng, pool)]]
            }
            70..=81 => {
                let pool = if rng.chance(1, 3) { &self.sizes } else { &self.default };
                let i = near(rng, pool);
                let j = (i + 1 + rng.below(2)).min(pool.len() - 1);
                vec![pool[i], pool[j]]
            }
            82..=91 => {
                // random subset
                let p = rng.range(1, 5);
                let v: Vec<_> = self.sizes.iter().copied().filter(|_| rng.chance(p, 8)).collect();
                if v.is_empty() {
                    vec![self.sizes[rng.below(48)]]
                } else {
                    v
                }
            }
            92..=95 => SymbolList::default().enforce_square().iter().collect(),
            _ => SymbolList::with_extended_rectangles().enforce_rectangular().iter().collect(),
        }
    }

    pub fn modes(&self, rng: &mut Rng, focus: &str) -> u8 {
        match focus {
            "C13" => {
                if rng.chance(3, 5) {
                    // ASCII disabled
                    ((1 + rng.below(31)) << 1) as u8
                } else {
                    (1 + rng.below(63)) as u8
                }
            }
            "C11" => rng.below(64) as u8,
            _ => {
                if rng.chance(2, 5) {
                    63
                } else if rng.chance(1, 2) {
                    // ASCII + some others
                    (1 | (rng.below(32) << 1)) as u8
                } else {
                    (1 + rng.below(63)) as u8
                }
            }
        }
    }
}

fn push_cfgs(
    out: &mut Vec<EncCase>,
    rng: &mut Rng,
    g: &CfgGen,
    stratum: &'static str,
    input: &[u8],
    n: usize,
    focus: &str,
) {
    for k in 0..n {
        let (modes, list, macros, fnc1, eci);
        if k == 0 && rng.chance(1, 2) {
            modes = 63;
            list = g.default.clone();
            macros = true;
            fnc1 = false;
            eci = -1;
        } else {
            modes = g.modes(rng, focus);
            list = g.list(rng, input, focus == "C11");
            macros = match focus {
                "C16" => rng.chance(4, 5),
                _ => rng.chance(7, 10),
            };
            fnc1 = match focus {
                "C16" => rng.chance(1, 3),
                _ => rng.chance(1, 10),
            };
            // (the C10 exploration set is frozen: no further random draws for focus "C10")
            eci = if (focus == "C02" || focus == "C11") && rng.chance(1, 6) {
                *rng.pick(&ECI_LIST)
            } else if focus != "C10" && focus != "C02" && focus != "C11" && rng.chance(1, 8) {
                *rng.pick(&ECI_LIST)
            } else {
                -1
            };
        }
        let mut order = [0u8, 1, 2, 3];
        for i in (1..4).rev() {
            order.swap(i, rng.below(i + 1));
        }
        out.push(EncCase {
            order,
            stratum,
            input: input.to_vec(),
            modes,
            list,
            macros,
            fnc1,
            eci,
        });
    }
}

pub fn cases(tier: &str, seed: u64, focus: &str) -> Vec<EncCase> {
    let thorough = tier == "thorough";
    let g = CfgGen::new();
    let mut rng = Rng::new(seed, 0xE0C);
    let mut out = Vec::new();

    // (1) sigma strings: every string over SIGMA up to length L, sub-sampled configurations
    let l = 3;
    let sig = all_strings(&SIGMA, l);
    for s in &sig {
        let keep = if thorough { true } else { s.len() <= 2 || rng.chance(1, 4) };
        if keep {
            push_cfgs(&mut out, &mut rng, &g, "sigma", s, if thorough { 2 } else { 1 }, focus);
        }
    }
    if thorough {
        let sig4 = all_strings(&SIGMA12, 4);
        for s in sig4.iter().filter(|s| s.len() == 4) {
            push_cfgs(&mut out, &mut rng, &g, "sigma12x4", s, 1, focus);
        }
    }

    // (2) boundary strings: body of one class of every length, plus a tail
    let max_body = if focus == "C10" { 36 } else if thorough { 120 } else { 48 };
    for class in CLASSES {
        for n in 0..=max_body {
            let ntails = if thorough { TAILS.len() } else { 3 };
            for t in 0..ntails {
                let tail = if thorough { TAILS[t] } else { *rng.pick(&TAILS) };
                let mut s = class_string(&mut rng, class, n);
                s.extend_from_slice(tail);
                push_cfgs(&mut out, &mut rng, &g, "boundary", &s, 1, focus);
            }
        }
    }
    // run in class X followed by a run in class Y (mode pairs)
    let npairs = if thorough { 6000 } else { 1200 };
    for _ in 0..npairs {
        let a = *rng.pick(&CLASSES);
        let b = *rng.pick(&CLASSES);
        let na = rng.range(1, 30);
        let nb = rng.range(1, 12);
        let mut s = class_string(&mut rng, a, na);
        s.extend(class_string(&mut rng, b, nb));
        if rng.chance(1, 3) {
            s.extend_from_slice(*rng.pick(&TAILS[..]));
        }
        push_cfgs(&mut out, &mut rng, &g, "pairs", &s, 1, focus);
    }

    // three runs of different classes, and a run followed by a digit run of every length (look-ahead thresholds)
    let ntrip = if thorough { 12000 } else { 3000 };
    let trip_classes = [Class::Upper, Class::Lower, Class::LowerSpace, Class::Digits, Class::EdifactPunct, Class::X12, Class::Shift2, Class::High, Class::UpperDigit];
    for _ in 0..ntrip {
        let mut s = Vec::new();
        for _ in 0..3 {
            let c = if rng.chance(5, 6) { *rng.pick(&trip_classes) } else { *rng.pick(&CLASSES) };
            let n = rng.range(1, 12);
            s.extend(class_string(&mut rng, c, n));
        }
        push_cfgs(&mut out, &mut rng, &g, "triples", &s, 1, focus);
    }
    let suffixes: [&[u8]; 7] = [b"", b"/A", b"a", b" ", b"\x80", b"AB", b"!"];
    for class in [Class::Upper, Class::Lower, Class::LowerSpace, Class::UpperDigit, Class::X12, Class::EdifactPunct, Class::Mixed] {
        for pre in 0..=14usize {
            for d in 1..=14usize {
                let nsuf = if thorough { suffixes.len() } else { 2 };
                for k in 0..nsuf {
                    let suf: &[u8] = if thorough { suffixes[k] } else { *rng.pick(&suffixes[..]) };
                    let mut s = class_string(&mut rng, class, pre);
                    s.extend(class_string(&mut rng, Class::Digits, d));
                    s.extend_from_slice(suf);
                    push_cfgs(&mut out, &mut rng, &g, "digitRuns", &s, 1, focus);
                }
            }
        }
    }

    // (3) random strings, lengths log-uniform up to beyond the maximum
    let nrand = if thorough { 6000 } else { 900 };
    for _ in 0..nrand {
        let maxlen = if focus == "C10" { 40 } else if rng.chance(1, 10) { 3300 } else { 400 };
        let n = rng.log_range(0, maxlen);
        let s = if rng.chance(1, 4) {
            let c = *rng.pick(&CLASSES);
            class_string(&mut rng, c, n)
        } else {
            random_runs(&mut rng, n)
        };
        push_cfgs(&mut out, &mut rng, &g, "random", &s, 1, focus);
    }
    // long inputs near the largest capacities (few, they are expensive to judge)
    let nlong = if focus == "C10" { 0 } else if thorough { 60 } else { 8 };
    for _ in 0..nlong {
        let c = *rng.pick(&[Class::Digits, Class::Upper, Class::Lower, Class::Any, Class::EdifactPunct, Class::X12]);
        let n = match c {
            Class::Digits => rng.range(3000, 3200),
            Class::Any => rng.range(1500, 1600),
            Class::EdifactPunct => rng.range(2000, 2100),
            _ => rng.range(2250, 2400),
        };
        let s = class_string(&mut rng, c, n);
        push_cfgs(&mut out, &mut rng, &g, "long", &s, 1, focus);
    }

    // (3b) Base256 runs around the one-/two-byte length field boundary (249/250) and the maximum (1555)
    if focus != "C10" {
        let lens: Vec<usize> = if thorough { vec![247, 248, 249, 250, 251, 252, 253, 1553, 1554, 1555, 1556, 1557] } else { vec![248, 249, 250, 251, 1555, 1556] };
        for l in lens {
            for tail in [&b""[..], b"1234567890123456789012345678901234567890", b"ABCDEFGHIJKLMNOP", b"a", b"12", b"\xFF"] {
                if l > 1000 && tail.len() > 2 {
                    continue;
                }
                let mut s = class_string(&mut rng, Class::High, l);
                s.extend_from_slice(tail);
                push_cfgs(&mut out, &mut rng, &g, "b256len", &s, 2, focus);
            }
        }
    }

    // (3b+) a Base256 run between ASCII-cheap neighbours, then digit pairs that make the obvious plan
    // (ASCII, Base256 run with explicit length, ASCII digit pairs) land exactly on a capacity, one below and one above
    if focus != "C10" {
        let runs: Vec<usize> = if thorough { vec![3, 9, 40, 247, 248, 249, 250, 251, 252, 499, 500, 501, 750] } else { vec![9, 248, 249, 250, 251, 500] };
        for l in runs {
            for pre in [&b""[..], b"A"] {
                for post in [&b""[..], b"a"] {
                    let base = pre.len() + 1 + if l <= 249 { 1 } else { 2 } + l + post.len();
                    let caps: Vec<usize> = g.sizes.iter().map(|s| capacity_of(*s)).filter(|c| *c >= base).collect();
                    let mut caps_sorted = caps.clone();
                    caps_sorted.sort();
                    caps_sorted.dedup();
                    for cap in caps_sorted.iter().take(if thorough { 4 } else { 2 }) {
                        for delta in [-1i64, 0, 1] {
                            let pairs = *cap as i64 - base as i64 + delta;
                            if pairs < 0 {
                                continue;
                            }
                            let mut s = pre.to_vec();
                            s.extend(class_string(&mut rng, Class::High, l));
                            s.extend_from_slice(post);
                            s.extend(class_string(&mut rng, Class::Digits, 2 * pairs as usize));
                            out.push(EncCase { order: [0, 1, 2, 3], stratum: "b256Mix", input: s.clone(), modes: 63, list: g.default.clone(), macros: true, fnc1: false, eci: -1 });
                            out.push(EncCase { order: [0, 1, 2, 3], stratum: "b256Mix", input: s, modes: 1 | 32, list: g.sizes.clone(), macros: false, fnc1: false, eci: -1 });
                        }
                    }
                }
            }
        }
    }

    // (3b') four or five runs, occasionally with a long Base256-type run (>= 250 bytes) in front
    if focus != "C10" {
        let nmulti = if thorough { 15000 } else { 2500 };
        let run_classes = [Class::Upper, Class::Lower, Class::Digits, Class::EdifactPunct, Class::X12, Class::Shift2, Class::High, Class::LowerSpace];
        for _ in 0..nmulti {
            let mut s = Vec::new();
            if rng.chance(1, 12) {
                let n = rng.range(248, 256);
                s.extend(class_string(&mut rng, Class::High, n));
            }
            for _ in 0..rng.range(3, 5) {
                let c = *rng.pick(&run_classes);
                let n = if rng.chance(1, 3) { rng.range(1, 3) } else { rng.range(1, 16) };
                s.extend(class_string(&mut rng, c, n));
            }
            push_cfgs(&mut out, &mut rng, &g, "multiRun", &s, 1, focus);
        }
    }

    // (3b'') an earlier run whose length bookkeeping matters (long Base256, EDIFACT 4k+3, partial triples), then a
    // final run of every length and a short tail: the end-of-data rules depend on the exact codeword position
    if focus != "C10" {
        let prefixes: Vec<(Class, usize)> = vec![(Class::High, 250), (Class::High, 251), (Class::High, 252), (Class::High, 5),
            (Class::EdifactPunct, 7), (Class::EdifactPunct, 11), (Class::Upper, 4), (Class::Upper, 7), (Class::Digits, 5), (Class::Lower, 5)];
        let ends = [Class::EdifactPunct, Class::X12, Class::Upper, Class::Lower];
        let tails: [&[u8]; 6] = [b"", b"a", b"ab", b"1", b"12", b"a1"];
        for (pc, pn) in &prefixes {
            for ec in ends {
                let step = if thorough || *pn < 200 { 1 } else { 1 };
                for n in (1..=(if *pn >= 200 { 36 } else { 24 })).step_by(step) {
                    for (ti, tail) in tails.iter().enumerate() {
                        if !thorough && (n + ti) % 2 == 1 && *pn < 200 {
                            continue;
                        }
                        let mut s = class_string(&mut rng, *pc, *pn);
                        if rng.chance(1, 2) {
                            s.push(*rng.pick(b"a~\x01"));
                        }
                        s.extend(class_string(&mut rng, ec, n));
                        s.extend_from_slice(tail);
                        push_cfgs(&mut out, &mut rng, &g, "prefixThenEod", &s, 1, focus);
                    }
                }
            }
        }
    }

    // (3c) exact fits of the largest listed symbol: digits / letters / bytes that fill a size exactly, one less, one more
    if focus != "C10" {
        for (i, s) in g.sizes.clone().iter().enumerate() {
            let cap = capacity_of(*s);
            if cap > 400 && !thorough && i % 3 != 0 {
                continue;
            }
            for (class, len) in [(Class::Digits, 2 * cap), (Class::Digits, 2 * cap - 1), (Class::Digits, 2 * cap + 1), (Class::Upper, cap * 3 / 2),
                                 (Class::High, cap.saturating_sub(2)), (Class::Mixed, cap)] {
                if len > 1555 && class == Class::High {
                    continue;
                }
                let d = class_string(&mut rng, class, len);
                let mut list = vec![*s];
                if rng.chance(1, 2) && i > 0 {
                    list.push(g.sizes[rng.below(i)]);
                }
                let mut order = [0u8, 1, 2, 3];
                order.swap(0, rng.below(4));
                out.push(EncCase { order, stratum: "exactFit", input: d, modes: if rng.chance(2, 3) { 63 } else { g.modes(&mut rng, focus) }, list, macros: true, fnc1: false, eci: -1 });
            }
        }
    }

    // (3c') a short mixed prefix followed by a run rich in X12-only characters (* > CR): many plans of different
    // start modes converge on X12 in the middle of a triple (the pruning passes' corner cases)
    if focus != "C10" {
        let nx = if thorough { 20000 } else if focus == "C11" { 5000 } else { 1500 };
        for _ in 0..nx {
            let mut s: Vec<u8> = (0..rng.range(1, 6)).map(|_| *rng.pick(&SIGMA)).collect();
            for _ in 0..rng.range(4, 14) {
                s.push(*rng.pick(b"A0 *>\r*>\rB9a"));
            }
            if rng.chance(1, 3) {
                s.extend_from_slice(*rng.pick(&TAILS[..]));
            }
            push_cfgs(&mut out, &mut rng, &g, "x12Mix", &s, 1, focus);
        }
    }

    // (3d) degenerate payloads under every mode set: empty input, bare macro envelopes, a single character
    if focus != "C10" {
        let mut bare05 = MACRO05_HEAD.to_vec();
        bare05.extend_from_slice(MACRO_TRAIL);
        let mut bare06 = MACRO06_HEAD.to_vec();
        bare06.extend_from_slice(MACRO_TRAIL);
        for modes in 0..64u8 {
            for inp in [&b""[..], &bare05[..], &bare06[..], b"A", b"\x80", b"12"] {
                if !thorough && focus != "C11" && modes % 4 != 1 && modes != 0 && modes != 62 {
                    continue;
                }
                let list = if rng.chance(1, 2) { g.default.clone() } else { g.list(&mut rng, inp, false) };
                out.push(EncCase { order: [0, 1, 2, 3], stratum: "degenerate", input: inp.to_vec(), modes, list, macros: rng.chance(3, 4), fnc1: rng.chance(1, 5),
                                   eci: if rng.chance(1, 5) { *rng.pick(&ECI_LIST) } else { -1 } });
            }
        }
    }

    // (4) envelope strings
    let mut bodies: Vec<Vec<u8>> = vec![vec![], b"A".to_vec(), b"12".to_vec(), b"ABC123".to_vec()];
    for s in all_strings(&SIGMA12, 2) {
        bodies.push(s);
    }
    let nb = if thorough { 400 } else { 60 };
    for _ in 0..nb {
        let n = rng.log_range(1, if focus == "C10" { 30 } else { 120 });
        let mut b = random_runs(&mut rng, n);
        if rng.chance(1, 2) {
            b.extend_from_slice(*rng.pick(&TAILS[..]));
        }
        bodies.push(b);
    }
    let env = envelope_strings(&mut rng, &bodies);
    let reps = if focus == "C16" { 3 } else { 1 };
    for s in &env {
        push_cfgs(&mut out, &mut rng, &g, "envelope", s, reps, focus);
        // the tightest single symbol for the COMPACTED message (the envelope's nine bytes become one codeword)
        if focus != "C10" && s.len() >= 9 && (s.starts_with(MACRO05_HEAD) || s.starts_with(MACRO06_HEAD)) && s.ends_with(MACRO_TRAIL) {
            let need = 1 + ascii_size(&s[7..s.len() - 2]);
            if let Some(sz) = g.sizes.iter().find(|z| capacity_of(**z) >= need) {
                out.push(EncCase { order: [0, 1, 2, 3], stratum: "envelopeTight", input: s.clone(), modes: 63, list: vec![*sz], macros: true, fnc1: false, eci: -1 });
            }
        }
    }
    // (4b) envelopes inside envelopes, payloads that begin with a (second) head or end with a (second) trailer, in every
    // combination of 05/06: only the outermost head and the last trailer belong to the envelope
    if focus != "C10" {
        let heads = [MACRO05_HEAD, MACRO06_HEAD];
        let inner: [&[u8]; 6] = [b"", b"A", b"ABCDEF", b"12", b"\x80", b"a,b"];
        for h1 in heads {
            for body in inner {
                for variant in 0..8 {
                    let mut s = h1.to_vec();
                    match variant {
                        0 | 1 => {
                            s.extend_from_slice(heads[variant]);
                            s.extend_from_slice(body);
                        }
                        2 | 3 => {
                            s.extend_from_slice(heads[variant - 2]);
                            s.extend_from_slice(body);
                            s.extend_from_slice(MACRO_TRAIL);
                        }
                        4 => {
                            s.extend_from_slice(body);
                            s.extend_from_slice(MACRO_TRAIL);
                        }
                        5 => {
                            s.extend_from_slice(body);
                            s.extend_from_slice(MACRO_TRAIL);
                            s.extend_from_slice(MACRO_TRAIL);
                        }
                        6 => {
                            s.extend_from_slice(body);
                            s.extend_from_slice(heads[0]);
                        }
                        _ => {
                            s.extend_from_slice(body);
                            s.extend_from_slice(b"\x1E");
                        }
                    }
                    s.extend_from_slice(MACRO_TRAIL);
                    push_cfgs(&mut out, &mut rng, &g, "envelopeNested", &s, if focus == "C16" { 3 } else { 1 }, focus);
                    out.push(EncCase { order: [0, 1, 2, 3], stratum: "envelopeNested", input: s, modes: 63, list: g.default.clone(), macros: true, fnc1: false, eci: -1 });
                }
            }
        }
    }
    out
}

fn decode_res_json(r: Outcome<Result<Vec<u8>, String>>) -> Value {
    match r {
        Outcome::Val(Ok(b)) => json!({"kind": "Ok", "bytes": bytes_json(&b)}),
        Outcome::Val(Err(e)) => json!({"kind": "Err", "err": e}),
        Outcome::Panic(l, m) => panic_json(&l, &m),
    }
}

pub fn run_case(idx: usize, c: &EncCase, profile: &str) -> Value {
    set_case(idx, "encode");
    let list = SymbolList::with_whitelist(c.list.iter().copied());
    let list_names = list_json(&list);
    let caps: Vec<usize> = list.iter().map(capacity_of).collect();
    let mut builder = DataMatrixBuilder::new();
    for o in c.order {
        builder = match o {
            0 => builder.with_encodation_types(modes_from_mask(c.modes)),
            1 => builder.with_symbol_list(list.clone()),
            2 => builder.with_macros(c.macros),
            _ => builder.with_fnc1_start(c.fnc1),
        };
    }
    let input = c.input.clone();
    let eci = c.eci;
    let r = guarded(move || {
        if eci < 0 {
            builder.encode(&input)
        } else {
            builder.encode_eci(&input, Some(eci as u32))
        }
    });
    let mut events = Vec::new();
    let mut dm: Option<DataMatrix> = None;
    let res = match r {
        Outcome::Val(Ok(d)) => {
            let v = json!({"kind": "Ok", "size": size_name(d.size), "data": bytes_json(d.data_codewords()),
                           "necc": d.codewords().len() - d.data_codewords().len()});
            dm = Some(d);
            v
        }
        Outcome::Val(Err(data::DataEncodingError::TooMuchOrIllegalData)) => json!({"kind": "TooMuch"}),
        Outcome::Val(Err(data::DataEncodingError::SymbolListEmpty)) => json!({"kind": "ListEmpty"}),
        Outcome::Panic(l, m) => panic_json(&l, &m),
    };
    events.push(json!({"ev": "Encode", "res": res}));
    if let Some(d) = &dm {
        set_case(idx, "decode_data");
        let dc = d.data_codewords().to_vec();
        let r = guarded(move || data::decode_data(&dc).map_err(|e| format!("{:?}", e)));
        events.push(json!({"ev": "DecodeData", "res": decode_res_json(r)}));
        set_case(idx, "decode");
        let d2 = d.clone();
        let r = guarded(move || {
            let bm = d2.bitmap();
            DataMatrix::decode(bm.bits(), bm.width()).map_err(|e| format!("{:?}", e))
        });
        events.push(json!({"ev": "DecodePixels", "res": decode_res_json(r)}));
    }
    // the planning entry point, outcome kind only (details: "plan" family)
    set_case(idx, "encodation_plan");
    let input = c.input.clone();
    let l2 = list.clone();
    let m2 = modes_from_mask(c.modes);
    let r = guarded(move || data::encodation_plan(&input, &l2, m2).is_some());
    let pres = match r {
        Outcome::Val(true) => json!({"kind": "Some"}),
        Outcome::Val(false) => json!({"kind": "None"}),
        Outcome::Panic(l, m) => panic_json(&l, &m),
    };
    events.push(json!({"ev": "Plan", "res": pres}));
    // the string entry point with the same configuration (outcome kind only; C14 checks its function)
    if let Ok(text) = std::str::from_utf8(&c.input) {
        set_case(idx, "encode_str");
        let mut b2 = DataMatrixBuilder::new();
        for o in c.order {
            b2 = match o {
                0 => b2.with_encodation_types(modes_from_mask(c.modes)),
                1 => b2.with_symbol_list(list.clone()),
                2 => b2.with_macros(c.macros),
                _ => b2.with_fnc1_start(c.fnc1),
            };
        }
        let t = text.to_string();
        let r = guarded(move || b2.encode_str(&t));
        let sres = match r {
            Outcome::Val(Ok(_)) => json!({"kind": "Ok"}),
            Outcome::Val(Err(data::DataEncodingError::TooMuchOrIllegalData)) => json!({"kind": "TooMuch"}),
            Outcome::Val(Err(data::DataEncodingError::SymbolListEmpty)) => json!({"kind": "ListEmpty"}),
            Outcome::Panic(l, m) => panic_json(&l, &m),
        };
        events.push(json!({"ev": "EncodeStr", "res": sres}));
    }
    json!({"id": idx, "fam": "enc", "stratum": c.stratum, "profile": profile, "order": c.order,
           "input": bytes_json(&c.input), "modes": c.modes, "list": list_names, "caps": caps,
           "macro": c.macros, "fnc1": c.fnc1, "eci": c.eci, "events": events})
}


/// "storm": many more random inputs than are logged.  Only the encoder is called; a case is written to the trace
/// (and then judged by TLC like any other) only if the call panicked.  Returns the number of calls made.
pub fn storm(n: usize, seed: u64, profile: &str, first_id: usize, out: &mut Out) -> usize {
    let g = CfgGen::new();
    let mut rng = Rng::new(seed, 0x5707);
    for k in 0..n {
        let mut s: Vec<u8> = Vec::new();
        match rng.below(6) {
            0 | 4 | 5 => {
                for _ in 0..rng.range(1, 6) {
                    s.push(*rng.pick(&SIGMA));
                }
                for _ in 0..rng.range(3, 14) {
                    s.push(*rng.pick(b"A0 *>\r*>\rB9a"));
                }
            }
            1 => {
                for _ in 0..rng.range(2, 5) {
                    let c = *rng.pick(&CLASSES);
                    let m = rng.range(1, 10);
                    s.extend(class_string(&mut rng, c, m));
                }
            }
            2 => {
                let m = rng.range(1, 24);
                s = (0..m).map(|_| *rng.pick(&SIGMA)).collect();
            }
            _ => {
                let m = rng.log_range(1, 200);
                s = random_runs(&mut rng, m);
            }
        }
        let modes = if rng.chance(2, 3) { 63 } else { rng.below(64) as u8 };
        let list = if rng.chance(2, 3) { g.default.clone() } else { g.list(&mut rng, &s, false) };
        let c = EncCase { order: [0, 1, 2, 3], stratum: "storm", input: s, modes, list, macros: rng.chance(3, 4), fnc1: rng.chance(1, 10), eci: -1 };
        let l = SymbolList::with_whitelist(c.list.iter().copied());
        let b = DataMatrixBuilder::new().with_encodation_types(modes_from_mask(c.modes)).with_symbol_list(l).with_macros(c.macros).with_fnc1_start(c.fnc1);
        let inp = c.input.clone();
        set_case(first_id + k, "encode (storm)");
        if let Outcome::Panic(..) = guarded(move || b.encode(&inp).is_ok()) {
            out.put(&run_case(first_id + k, &c, profile));
        }
    }
    n
}
