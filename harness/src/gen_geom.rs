//! Geometry families: "place" (C07 traversal trace), "render" (C07 values, C08 forward), "parse" (C08 converse, C05)
use crate::catalogue::*;
use crate::util::*;
use datamatrix::placement::{Bit, MatrixMap};
use serde_json::{json, Value};

#[derive(Clone, Copy, Debug, PartialEq)]
pub struct Tag(pub u32);
impl Bit for Tag {
    const LOW: Self = Tag(0);
    const HIGH: Self = Tag(1);
}

/// The traversal of `IndexTraversal::run` as seen through the public API: the i-th call of the visitor
/// with its codeword index and the eight cells (recovered from the addresses of the `&mut` it hands out).
pub fn place_case(idx: usize, s: &Sym) -> Value {
    let size = size_by_name(s.name).expect("size");
    set_case(idx, "traverse_mut");
    let r = guarded(move || {
        let mut m = MatrixMap::<Tag>::new(size);
        let mut visits: Vec<(usize, [usize; 8])> = Vec::new();
        m.traverse_mut(|cw, bits| {
            let mut a = [0usize; 8];
            for (i, b) in bits.into_iter().enumerate() {
                a[i] = b as *mut Tag as usize;
            }
            visits.push((cw, a));
        });
        visits
    });
    match r {
        Outcome::Val(mut visits) => {
            // the property fixes which module holds which codeword bit, not the order in which the codewords are visited
            visits.sort_by_key(|v| v.0);
            let base = visits.iter().flat_map(|v| v.1.iter().copied()).min().unwrap_or(0);
            let sz = std::mem::size_of::<Tag>();
            let events: Vec<Value> = visits
                .iter()
                .map(|(cw, a)| json!({"ev": "Visit", "cw": cw + 1, "cells": a.iter().map(|p| (p - base) / sz).collect::<Vec<_>>()}))
                .collect();
            json!({"id": idx, "fam": "place", "size": s.name, "events": events})
        }
        Outcome::Panic(l, m) => json!({"id": idx, "fam": "place", "size": s.name, "events": [], "panic": panic_json(&l, &m)}),
    }
}

pub fn place_cases() -> Vec<&'static Sym> {
    CATALOGUE.iter().collect()
}

// ---------------------------------------------------------------------------------------------
// "geom" family: one case per (size, codeword vector): Render, ReadBack, Parse, then many Flip experiments
use datamatrix::{DataMatrix, SymbolSize};

pub struct GeomCase {
    pub size: &'static Sym,
    pub encoded: bool,
}

fn kind(s: &Sym, r: usize, c: usize) -> &'static str {
    let ih = (s.rows - 2 * s.rrows) / s.rrows;
    let iw = (s.cols - 2 * s.rcols) / s.rcols;
    let ri = r % (ih + 2);
    let ci = c % (iw + 2);
    if ci == 0 || ri == ih + 1 || ri == 0 || ci == iw + 1 {
        "finder"
    } else {
        "data"
    }
}

pub fn geom_cases(tier: &str) -> Vec<GeomCase> {
    let mut v = Vec::new();
    for s in CATALOGUE.iter() {
        v.push(GeomCase { size: s, encoded: false });
        v.push(GeomCase { size: s, encoded: true });
        if tier == "thorough" {
            v.push(GeomCase { size: s, encoded: false });
            v.push(GeomCase { size: s, encoded: true });
        }
    }
    v
}

fn parse_json(px: &[bool], w: usize, base: &[u8]) -> Value {
    let p = px.to_vec();
    let p2 = px.to_vec();
    match guarded(move || {
        MatrixMap::<bool>::try_from_bits(&p, w).map(|(m, s)| {
            // re-render the parsed content: must reproduce the input bit for bit
            let bm = m.bitmap();
            let ndiff = if bm.bits().len() == p2.len() { bm.bits().iter().zip(p2.iter()).filter(|(a, b)| a != b).count() } else { usize::MAX / 2 };
            (m.codewords(), s, bm.width(), ndiff)
        })
    }) {
        Outcome::Val(Ok((cw, s, rw, ndiff))) => {
            let same_len = cw.len() == base.len();
            let diff: Vec<Value> = if same_len {
                cw.iter().zip(base.iter()).enumerate().filter(|(_, (a, b))| a != b).map(|(i, (a, _))| json!([i + 1, *a])).collect()
            } else {
                vec![]
            };
            json!({"kind": "Ok", "size": size_name(s), "len": cw.len(), "diff": diff, "rerenderWidth": rw, "rerenderDiff": ndiff.min(1_000_000)})
        }
        Outcome::Val(Err(e)) => json!({"kind": "Err", "err": format!("{:?}", e)}),
        Outcome::Panic(l, m) => panic_json(&l, &m),
    }
}

fn decode_json(px: &[bool], w: usize) -> Value {
    let p = px.to_vec();
    match guarded(move || DataMatrix::decode(&p, w)) {
        Outcome::Val(Ok(b)) => json!({"kind": "Ok", "bytes": bytes_json(&b)}),
        Outcome::Val(Err(e)) => {
            let s = format!("{:?}", e);
            let class = s.split('(').next().unwrap_or("?").to_string();
            json!({"kind": "Err", "err": class})
        }
        Outcome::Panic(l, m) => panic_json(&l, &m),
    }
}

/// TLC's cost per step grows with the length of a case's event list, so a (size, codewords) case is
/// written as several records of at most CHUNK events, each carrying the base codewords.
pub const CHUNK: usize = 120;
pub fn geom_case_chunks(idx: usize, c: &GeomCase, tier: &str, seed: u64) -> Vec<Value> {
    let v = geom_case(idx, c, tier, seed);
    let events = v["events"].as_array().cloned().unwrap_or_default();
    if events.len() <= CHUNK {
        let mut v = v;
        v["id"] = json!(idx * 1000);
        return vec![v];
    }
    let mut out = Vec::new();
    for (k, ch) in events.chunks(CHUNK).enumerate() {
        let mut r = v.clone();
        r["id"] = json!(idx * 1000 + k);
        r["events"] = Value::Array(ch.to_vec());
        out.push(r);
    }
    out
}

pub fn geom_case(idx: usize, c: &GeomCase, tier: &str, seed: u64) -> Value {
    let thorough = tier == "thorough";
    let s = c.size;
    let size: SymbolSize = size_by_name(s.name).expect("size");
    let mut rng = Rng::new(seed, 0x6E0 + idx as u64);
    set_case(idx, "geom");
    // base codewords
    let mut msg: Vec<u8> = Vec::new();
    let mut encoded = c.encoded;
    let cw: Vec<u8> = if c.encoded {
        let n = (s.data * 2 / 3).max(1);
        msg = (0..n).map(|_| b'A' + rng.below(26) as u8).collect();
        let m2 = msg.clone();
        match guarded(move || DataMatrix::encode(&m2, size)) {
            Outcome::Val(Ok(d)) if d.codewords().len() == s.total() => d.codewords().to_vec(),
            _ => {
                encoded = false;
                (0..s.total()).map(|_| rng.byte()).collect()
            }
        }
    } else {
        (0..s.total()).map(|_| rng.byte()).collect()
    };
    let mut events: Vec<Value> = Vec::new();
    // Render
    let cw2 = cw.clone();
    let r = guarded(move || {
        let m = MatrixMap::new_with_codewords(&cw2, size);
        let bm = m.bitmap();
        (bm.width(), bm.bits().to_vec(), m.codewords())
    });
    let (w, px, back) = match r {
        Outcome::Val(x) => x,
        Outcome::Panic(l, m) => {
            events.push(json!({"ev": "Render", "res": panic_json(&l, &m)}));
            return json!({"id": idx, "fam": "geom", "size": s.name, "cw": bytes_json(&cw), "msg": bytes_json(&msg), "encoded": encoded, "events": events});
        }
    };
    events.push(json!({"ev": "Render", "res": {"kind": "Ok", "w": w, "px": px.iter().map(|b| *b as u8).collect::<Vec<u8>>()}}));
    events.push(json!({"ev": "ReadBack", "res": {"kind": "Ok", "cw": bytes_json(&back)}}));
    events.push(json!({"ev": "Flip", "flips": [], "parse": parse_json(&px, w, &cw), "decode": decode_json(&px, w)}));
    // deviations
    let h = if w > 0 { px.len() / w } else { 0 };
    let mut singles: Vec<(usize, usize)> = Vec::new();
    let small = s.rows * s.cols <= 26 * 26;
    let mut ndata = 0;
    for r in 0..h {
        for cc in 0..w {
            let k = kind(s, r, cc);
            if k != "data" || thorough || small {
                singles.push((r, cc));
            } else {
                ndata += 1;
            }
        }
    }
    // the four modules of the bottom-right corner of the mapping matrix (fixed pattern for 12/16/20/24)
    for (r, cc) in [(h - 2, w - 2), (h - 2, w - 3), (h - 3, w - 2), (h - 3, w - 3)] {
        if !singles.contains(&(r, cc)) {
            singles.push((r, cc));
        }
    }
    let extra = if ndata > 0 { 150.min(ndata) } else { 0 };
    for _ in 0..extra {
        loop {
            let (r, cc) = (rng.below(h), rng.below(w));
            if kind(s, r, cc) == "data" {
                singles.push((r, cc));
                break;
            }
        }
    }
    let mut experiments: Vec<Vec<(usize, usize)>> = singles.into_iter().map(|p| vec![p]).collect();
    // multi-module deviations: random 2..5 modules (mixed), and data-only damage around the correction capacity
    let nm = if thorough { 200 } else { 40 };
    for _ in 0..nm {
        let k = rng.range(2, 5);
        let mut f: Vec<(usize, usize)> = Vec::new();
        while f.len() < k {
            let p = (rng.below(h), rng.below(w));
            if !f.contains(&p) {
                f.push(p);
            }
        }
        experiments.push(f);
    }
    // whole finder lines inverted (phase of a clock track, a complete solid bar), per region row / column
    {
        let ih = (s.rows - 2 * s.rrows) / s.rrows;
        let iw = (s.cols - 2 * s.rcols) / s.rcols;
        for a in 0..s.rrows {
            for r in [a * (ih + 2), a * (ih + 2) + ih + 1] {
                experiments.push((0..w).map(|c| (r, c)).collect());
                // only the part of the line inside one region column
                let b = rng.below(s.rcols);
                experiments.push((b * (iw + 2)..(b + 1) * (iw + 2)).map(|c| (r, c)).collect());
            }
        }
        for b in 0..s.rcols {
            for c in [b * (iw + 2), b * (iw + 2) + iw + 1] {
                experiments.push((0..h).map(|r| (r, c)).collect());
                let a = rng.below(s.rrows);
                experiments.push((a * (ih + 2)..(a + 1) * (ih + 2)).map(|r| (r, c)).collect());
            }
        }
    }
    let t_total = (s.ec / 2) * s.blocks;
    // (TLC evaluates the expected codewords in O(k^2), keep k moderate)
    for k in [1usize, 2, t_total.max(1).min(48), (t_total + 1).min(56), (2 * t_total + 2).min(64), (8 * (s.ec / 2).max(1)).min(72)] {
        for _ in 0..(if thorough { 6 } else { 2 }) {
            let mut f = Vec::new();
            while f.len() < k {
                let (r, cc) = (rng.below(h), rng.below(w));
                if kind(s, r, cc) == "data" && !f.contains(&(r, cc)) {
                    f.push((r, cc));
                }
            }
            experiments.push(f);
        }
    }
    // the valid rendering with stray pixels appended / pixels missing / a row more or less
    for delta in [1i64, (w as i64) - 1, w as i64, -1, -(w as i64), 2 * w as i64, -((w as i64) - 1)] {
        let mut p = px.clone();
        if delta >= 0 {
            for i in 0..delta as usize {
                p.push(i % 2 == 0);
            }
        } else {
            p.truncate((p.len() as i64 + delta).max(0) as usize);
        }
        events.push(json!({"ev": "Resize", "delta": delta, "parse": parse_json(&p, w, &cw), "decode": decode_json(&p, w)}));
    }
    for f in experiments {
        let mut p = px.clone();
        for (r, cc) in &f {
            p[r * w + cc] = !p[r * w + cc];
        }
        let flips: Vec<Value> = f.iter().map(|(r, cc)| json!([r, cc])).collect();
        let dec = if f.len() == 1 && kind(s, f[0].0, f[0].1) != "data" && !thorough { json!({"kind": "Skipped"}) } else { decode_json(&p, w) };
        events.push(json!({"ev": "Flip", "flips": flips, "parse": parse_json(&p, w, &cw), "decode": dec}));
    }
    json!({"id": idx, "fam": "geom", "size": s.name, "cw": bytes_json(&cw), "msg": bytes_json(&msg), "encoded": encoded, "events": events})
}

// ---------------------------------------------------------------------------------------------
// "shapes" family: arbitrary (width, length) pixel arrays -> try_from_bits / decode
pub struct ShapeCase {
    pub w: usize,
    pub n: usize,
    pub fill: &'static str,
}

pub fn shape_cases(tier: &str, seed: u64) -> Vec<ShapeCase> {
    let mut rng = Rng::new(seed, 0x5A9E);
    let mut v = Vec::new();
    let maxw: usize = 150;
    for w in 0..=maxw {
        let mut ns: Vec<usize> = vec![0, 1, w.saturating_sub(1), w, w + 1, w * 8, w * 8 + 3, w * w, w * w + 1, w * 10, w * 12];
        for s in CATALOGUE.iter() {
            if s.cols == w {
                ns.push(w * s.rows);
                ns.push(w * s.rows + 1);
                ns.push(w * (s.rows + 2));
            }
            if s.rows == w {
                ns.push(w * s.cols); // transposed dimensions
            }
        }
        if tier == "thorough" {
            for h in 0..=150 {
                ns.push(w * h);
            }
            for _ in 0..10 {
                ns.push(rng.below(23000));
            }
        }
        ns.sort();
        ns.dedup();
        for n in ns {
            for fill in ["zeros", "ones", "random"] {
                if fill == "random" && n > 1200 {
                    continue;
                }
                v.push(ShapeCase { w, n, fill });
            }
        }
    }
    // arrays far taller or wider than any symbol whose dimensions agree with a real symbol in the low bits
    // (height = rows + 256 j, width = cols or cols with the bits of j removed; the same with the roles exchanged),
    // and arrays beyond 144 x 144 whose length is / is not a multiple of the width
    for s in CATALOGUE.iter() {
        for j in 1usize..=255 {
            if j & !s.cols != 0 && j > 3 {
                continue;
            }
            for w in [s.cols, s.cols & !j] {
                let h = s.rows + 256 * j;
                if w == 0 || w * h > 600_000 || (tier != "thorough" && j > 3 && j != s.cols && w * h > 60_000) {
                    continue;
                }
                for fill in ["zeros", "tiled"] {
                    v.push(ShapeCase { w, n: w * h, fill });
                }
            }
            let (w, h) = (s.cols + 256 * j, s.rows);
            if j <= 2 {
                v.push(ShapeCase { w, n: w * h, fill: "zeros" });
            }
        }
    }
    for (w, n) in [(144usize, 144 * 144 + 1), (144, 144 * 145), (145, 144 * 144 + 145), (145, 145 * 145), (7, 144 * 144 + 5), (1, 30_000), (20_737, 20_737), (20_737, 20_738)] {
        for fill in ["zeros", "tiled"] {
            v.push(ShapeCase { w, n, fill });
        }
    }
    v
}

pub fn shape_case(idx: usize, c: &ShapeCase, seed: u64) -> Value {
    let mut rng = Rng::new(seed, 0x5A9E00 + idx as u64);
    set_case(idx, "shapes");
    let px: Vec<bool> = match c.fill {
        "zeros" => vec![false; c.n],
        "ones" => vec![true; c.n],
        "tiled" => {
            // a valid rendering of the first symbol of this width, repeated cyclically
            match CATALOGUE.iter().find(|s| s.cols == c.w).and_then(|s| size_by_name(s.name).map(|z| (s, z))) {
                Some((s, size)) => {
                    let cw: Vec<u8> = (0..s.total()).map(|i| (i * 37 + 11) as u8).collect();
                    let bm = MatrixMap::new_with_codewords(&cw, size).bitmap();
                    let tile = bm.bits().to_vec();
                    (0..c.n).map(|i| tile[i % tile.len()]).collect()
                }
                None => vec![false; c.n],
            }
        }
        _ => (0..c.n).map(|_| rng.chance(1, 2)).collect(),
    };
    let w = c.w;
    let p = px.clone();
    let parse = match guarded(move || MatrixMap::<bool>::try_from_bits(&p, w).map(|(m, s)| (m.codewords().len(), s))) {
        Outcome::Val(Ok((len, s))) => json!({"kind": "Ok", "size": size_name(s), "len": len}),
        Outcome::Val(Err(e)) => json!({"kind": "Err", "err": format!("{:?}", e)}),
        Outcome::Panic(l, m) => panic_json(&l, &m),
    };
    let decode = decode_json(&px, w);
    let mut rec = json!({"id": idx, "fam": "shapes", "w": c.w, "n": c.n, "fill": c.fill,
                         "events": [{"ev": "Parse", "res": parse}, {"ev": "Decode", "res": decode}]});
    if c.fill == "random" {
        rec["px"] = Value::Array(px.iter().map(|b| json!(*b as u8)).collect());
    }
    rec
}
