//! "path" family (C17): Bitmap::path / pixels / unicode on arbitrary bitmaps and on encoder output.
use crate::catalogue::*;
use crate::util::*;
use datamatrix::placement::{Bitmap, PathSegment};
use datamatrix::DataMatrix;
use serde_json::{json, Value};

pub struct PathCase {
    pub stratum: &'static str,
    pub w: usize,
    pub px: Vec<bool>,
    pub extras: bool,
}

pub fn cases(tier: &str, seed: u64) -> Vec<PathCase> {
    let thorough = tier == "thorough";
    let mut rng = Rng::new(seed, 0x9A7);
    let mut out = Vec::new();
    // (1) all w x h arrays with a dark top-left module, w*h <= limit
    let limit = if thorough { 16 } else { 12 };
    for w in 1..=limit {
        for h in 1..=limit {
            let n = w * h;
            if n > limit {
                continue;
            }
            for m in 0..(1u32 << (n - 1)) {
                let mut px = vec![true];
                for i in 0..n - 1 {
                    px.push(m & (1 << i) != 0);
                }
                out.push(PathCase { stratum: "allSmall", w, px, extras: n <= 9 || m % 16 == 0 });
            }
        }
    }
    // (2) structured: nested rings, checkerboards, islands in holes, diagonal contacts
    for n in 3..=12usize {
        let mut ring = vec![false; n * n];
        for r in 0..n {
            for c in 0..n {
                let d = r.min(c).min(n - 1 - r).min(n - 1 - c);
                ring[r * n + c] = d % 2 == 0;
            }
        }
        out.push(PathCase { stratum: "rings", w: n, px: ring, extras: true });
        let checker: Vec<bool> = (0..n * n).map(|i| (i / n + i % n) % 2 == 0).collect();
        out.push(PathCase { stratum: "checker", w: n, px: checker, extras: true });
        let mut frame = vec![true; n * n];
        for r in 1..n - 1 {
            for c in 1..n - 1 {
                frame[r * n + c] = (r + c) % 3 == 0;
            }
        }
        out.push(PathCase { stratum: "frame", w: n, px: frame, extras: true });
    }
    // (2b) outlines longer than any symbol's: one closed walk of more than 2^15 unit edges (checkerboards beyond 128 x 128)
    for n in if thorough { vec![129usize, 130, 150, 182] } else { vec![130usize] } {
        let checker: Vec<bool> = (0..n * n).map(|i| (i / n + i % n) % 2 == 0).collect();
        out.push(PathCase { stratum: "bigChecker", w: n, px: checker, extras: false });
    }
    // (3) random arrays, odd and even dimensions
    for _ in 0..(if thorough { 3000 } else { 500 }) {
        let w = rng.range(1, 40);
        let h = rng.range(1, 40);
        let dens = rng.range(2, 8);
        let mut px: Vec<bool> = (0..w * h).map(|_| rng.chance(dens, 10)).collect();
        px[0] = true;
        out.push(PathCase { stratum: "random", w, px, extras: rng.chance(1, 3) });
    }
    // (4) encoder output for every size
    for s in CATALOGUE.iter() {
        for k in 0..(if thorough { 8 } else { 1 }) {
            let size = size_by_name(s.name).unwrap();
            let n = (s.data / 2).max(1);
            let msg: Vec<u8> = (0..n).map(|_| if k % 2 == 0 { b'A' + rng.below(26) as u8 } else { rng.byte() }).collect();
            if let Outcome::Val(Ok(d)) = guarded(move || DataMatrix::encode(&msg, size)) {
                let bm = d.bitmap();
                out.push(PathCase { stratum: "symbol", w: bm.width(), px: bm.bits().to_vec(), extras: s.rows * s.cols <= 1600 });
            }
        }
    }
    // (5) large bitmaps (QR-code sized and beyond)
    for (w, h) in [(177usize, 177usize), (181, 181), (200, 200), (600, 64), (64, 600)] {
        if !thorough && w * h > 41000 {
            continue;
        }
        let mut px: Vec<bool> = (0..w * h).map(|i| ((i / w) / 3 + (i % w) / 3) % 2 == 0).collect();
        px[0] = true;
        out.push(PathCase { stratum: "large", w, px, extras: false });
    }
    out
}

pub fn run_case(idx: usize, c: &PathCase) -> Value {
    set_case(idx, "path");
    let h = c.px.len() / c.w;
    let (px, w) = (c.px.clone(), c.w);
    let path = match guarded(move || Bitmap::new(px, w).path()) {
        Outcome::Val(segs) => json!({"kind": "Ok", "segs": segs.iter().map(|s| match s {
            PathSegment::Horizontal(n) => json!(["H", n]),
            PathSegment::Vertical(n) => json!(["V", n]),
            PathSegment::Move(dx, dy) => json!(["M", dx, dy]),
            PathSegment::Close => json!(["Z"]),
        }).collect::<Vec<_>>()}),
        Outcome::Panic(l, m) => panic_json(&l, &m),
    };
    let mut rec = json!({"id": idx, "fam": "path", "stratum": c.stratum, "w": c.w, "h": h,
                         "px": c.px.iter().map(|b| *b as u8).collect::<Vec<u8>>(), "path": path, "events": []});
    if c.extras {
        let (px, w) = (c.px.clone(), c.w);
        rec["pixels"] = match guarded(move || Bitmap::new(px, w).pixels().collect::<Vec<_>>()) {
            Outcome::Val(v) => json!({"kind": "Ok", "coords": v.iter().map(|(x, y)| json!([x, y])).collect::<Vec<_>>()}),
            Outcome::Panic(l, m) => panic_json(&l, &m),
        };
        let (px, w) = (c.px.clone(), c.w);
        rec["unicode"] = match guarded(move || Bitmap::new(px, w).unicode()) {
            Outcome::Val(s) => json!({"kind": "Ok", "cps": s.chars().map(|ch| ch as u32).collect::<Vec<_>>()}),
            Outcome::Panic(l, m) => panic_json(&l, &m),
        };
    }
    rec
}
