//! "plan" family (C18, C19): encodation_plan / encode_data with the planner hook's events.
use crate::gen_enc::CfgGen;
use crate::strings::*;
use crate::util::*;
use datamatrix::verif::{take_plan_trace, PlanEvent};
use datamatrix::{data, SymbolList, SymbolSize};
use serde_json::{json, Value};

pub struct PlanCase {
    pub stratum: &'static str,
    pub input: Vec<u8>,
    pub modes: u8,
    pub list: Vec<SymbolSize>,
}

pub const ITER_CHUNK: usize = 150;
const MODE_BY_INDEX: [&str; 6] = ["ascii", "b256", "edifact", "x12", "c40", "text"];

fn alternation(pattern: &[u8], n: usize) -> Vec<u8> {
    (0..n).map(|i| pattern[i % pattern.len()]).collect()
}

pub fn cases(tier: &str, seed: u64, focus: &str) -> Vec<PlanCase> {
    let thorough = tier == "thorough";
    let g = CfgGen::new();
    let mut rng = Rng::new(seed, 0x91A);
    let mut out = Vec::new();
    let all: Vec<SymbolSize> = g.sizes.clone();
    let default = g.default.clone();
    let largest = vec![*all.last().unwrap()];
    let tiny = vec![all[0]];
    if focus == "C19" {
        // adversarial alternations that keep many modes competitive, at doubling lengths
        let patterns: Vec<Vec<u8>> = vec![
            b"Aa".to_vec(), b"A1".to_vec(), b"a1".to_vec(), b"A!".to_vec(), b"{|}~".to_vec(), b">*Aa>>1".to_vec(), b"A a0!\x80".to_vec(),
            b"AAAa".to_vec(), b"123A".to_vec(), b"12a".to_vec(), b"ABC1234567".to_vec(), b"\x80A".to_vec(), b"\xE1a1".to_vec(), b"*>\rA0 ".to_vec(),
            b"A".to_vec(), b"a".to_vec(), b"1".to_vec(), b"!".to_vec(), b"\xFF".to_vec(), b"Hello, World 1".to_vec(),
            b"0123\xc8\xc9\xca".to_vec(), b"ABCDEFGHIabcdefghi".to_vec(), b">*>*>*>*>~".to_vec(), b"12\xc8".to_vec(),
        ];
        let lens: Vec<usize> = if thorough { vec![1, 2, 4, 8, 14, 16, 32, 64, 128, 249, 250, 251, 512, 1024, 1555, 1556, 1557, 2048, 3000, 3116, 3200] } else { vec![1, 2, 14, 64, 250, 600, 1556, 3000] };
        for p in &patterns {
            for &n in &lens {
                let s = alternation(p, n);
                let cfgs: Vec<(u8, Vec<SymbolSize>)> = vec![
                    (63, default.clone()),
                    (63, largest.clone()),
                    (63, tiny.clone()),
                    ((63 & !(1 << rng.below(6))) as u8, all.clone()),
                    ((1 << rng.below(6)) | (1 << rng.below(6)), default.clone()),
                ];
                let take = if thorough { 5 } else if n > 1000 { 2 } else { 3 };
                for (modes, list) in cfgs.into_iter().take(take) {
                    out.push(PlanCase { stratum: "alternation", input: s.clone(), modes, list });
                }
            }
        }
        // random over the class alphabet, regression10-style inputs
        let nr = if thorough { 300 } else { 60 };
        for _ in 0..nr {
            let n = rng.log_range(1, 3200);
            let s: Vec<u8> = (0..n).map(|_| *rng.pick(&SIGMA)).collect();
            let list = match rng.below(4) { 0 => tiny.clone(), 1 => largest.clone(), 2 => all.clone(), _ => default.clone() };
            out.push(PlanCase { stratum: "randomSigma", input: s, modes: if rng.chance(1, 2) { 63 } else { (1 + rng.below(63)) as u8 }, list });
        }
        for _ in 0..(if thorough { 100 } else { 20 }) {
            let n = rng.log_range(1, 3200);
            let s = random_runs(&mut rng, n);
            out.push(PlanCase { stratum: "randomRuns", input: s, modes: 63, list: if rng.chance(1, 3) { tiny.clone() } else { default.clone() } });
        }
        return out;
    }
    // C18: planning agrees with encoding - boundary shapes for every class pair and tail, short random, sigma strings
    for s in all_strings(&SIGMA, 2) {
        let list = g.list(&mut rng, &s, false);
        out.push(PlanCase { stratum: "sigma", input: s, modes: g.modes(&mut rng, "C18"), list });
    }
    let sig3 = all_strings(&SIGMA12, 3);
    for s in sig3.iter().filter(|s| s.len() == 3) {
        if thorough || rng.chance(1, 3) {
            let list = g.list(&mut rng, s, false);
            out.push(PlanCase { stratum: "sigma12x3", input: s.clone(), modes: g.modes(&mut rng, "C18"), list });
        }
    }
    let max_body = if thorough { 100 } else { 44 };
    for class in CLASSES {
        for n in 0..=max_body {
            for t in 0..(if thorough { TAILS.len() } else { 3 }) {
                let tail: &[u8] = if thorough { TAILS[t] } else { *rng.pick(&TAILS[..]) };
                let mut s = class_string(&mut rng, class, n);
                s.extend_from_slice(tail);
                let list = g.list(&mut rng, &s, false);
                out.push(PlanCase { stratum: "boundary", input: s, modes: g.modes(&mut rng, "C18"), list });
            }
        }
    }
    for _ in 0..(if thorough { 60000 } else { 1500 }) {
        let a = *rng.pick(&CLASSES);
        let b = *rng.pick(&CLASSES);
        let na = rng.range(1, 30);
        let mut s = class_string(&mut rng, a, na);
        let nb = rng.range(1, 12);
        s.extend(class_string(&mut rng, b, nb));
        if rng.chance(1, 3) {
            s.extend_from_slice(*rng.pick(&TAILS[..]));
        }
        let list = g.list(&mut rng, &s, false);
        out.push(PlanCase { stratum: "pairs", input: s, modes: g.modes(&mut rng, "C18"), list });
    }
    for _ in 0..(if thorough { 25000 } else { 500 }) {
        let n = rng.log_range(0, 500);
        let s = random_runs(&mut rng, n);
        let list = g.list(&mut rng, &s, false);
        out.push(PlanCase { stratum: "random", input: s, modes: g.modes(&mut rng, "C18"), list });
    }
    // a Base256 run around the two-byte length threshold, a break, then a run of every length (lands on every capacity)
    for hn in [248usize, 249, 250, 251] {
        for brk in [&b"a"[..], b"", b"A"] {
            for (class, maxn) in [(Class::Digits, 70usize), (Class::EdifactPunct, 44), (Class::Upper, 40)] {
                let stepn = if thorough { 1 } else { 2 };
                for n in (0..=maxn).step_by(stepn) {
                    let mut s = class_string(&mut rng, Class::High, hn);
                    s.extend_from_slice(brk);
                    s.extend(class_string(&mut rng, class, n));
                    let list = if rng.chance(1, 2) { default.clone() } else { all.clone() };
                    out.push(PlanCase { stratum: "b256Threshold", input: s, modes: 63, list });
                }
            }
        }
    }
    // an earlier run whose end leaves the planner's codeword bookkeeping in every residue (EDIFACT 4k+1..4k+3, partial
    // triples), one break character, a final run of every length, and a tail with characters the final scheme cannot hold
    {
        let prefixes: Vec<(Class, usize)> = vec![(Class::EdifactPunct, 5), (Class::EdifactPunct, 6), (Class::EdifactPunct, 7), (Class::EdifactPunct, 11),
            (Class::Upper, 4), (Class::Upper, 5), (Class::X12, 7), (Class::Lower, 5), (Class::Digits, 5)];
        let ends = [Class::EdifactPunct, Class::X12, Class::Upper, Class::Lower];
        let tails: [&[u8]; 8] = [b"", b"_", b"a", b"\x1f", b"ab", b"1_", b"A", b"12"];
        for (pc, pn) in &prefixes {
            for ec in ends {
                for n in 1..=(if thorough { 40 } else { 28 }) {
                    for (ti, tail) in tails.iter().enumerate() {
                        if !thorough && (n + ti) % 2 == 1 {
                            continue;
                        }
                        let mut s = class_string(&mut rng, *pc, *pn);
                        s.push(*rng.pick(b"\na~\x01"));
                        s.extend(class_string(&mut rng, ec, n));
                        s.extend_from_slice(tail);
                        let list = if rng.chance(2, 3) { default.clone() } else { all.clone() };
                        out.push(PlanCase { stratum: "prefixThenEod", input: s, modes: if rng.chance(3, 4) { 63 } else { g.modes(&mut rng, "C18") }, list });
                    }
                }
            }
        }
    }
    // X12 triples filling a symbol exactly plus one or two more characters, on lists with capacity pairs differing by one
    for m in 1..=45usize {
        for tail in [&b"Z"[..], b"12", b"a", b"", b"ZZ"] {
            let mut s: Vec<u8> = b"A*>".iter().cycle().take(3 * m).copied().collect();
            s.extend_from_slice(tail);
            for list in [all.clone(), default.clone()] {
                out.push(PlanCase { stratum: "x12Exact", input: s.clone(), modes: if rng.chance(2, 3) { 63 } else { 9 }, list });
            }
        }
    }
    out
}

fn hook_json(evs: &[PlanEvent]) -> (Value, Vec<Value>) {
    let mut head = json!({});
    let mut iters = Vec::new();
    for e in evs {
        match e {
            PlanEvent::Start { n, written, start_enabled, seeds } => {
                head["start"] = json!({"n": n, "written": written, "startEnabled": start_enabled, "seeds": seeds});
            }
            PlanEvent::Iterate { iteration, stepped, switch_calls, spawned, before_prune, alive } => {
                // at most 100 pairs are written out (a planner gone exponential has millions); the true count is kept
                iters.push(json!({"it": iteration, "stepped": stepped, "calls": switch_calls, "spawned": spawned, "before": before_prune,
                                  "aliveCount": alive.len(),
                                  "alive": alive.iter().take(100).map(|(a, b)| json!([a, b])).collect::<Vec<_>>()}));
            }
            PlanEvent::Chosen { cost12, switches } => {
                head["chosen"] = json!({"cost12": cost12, "switches": switches.iter().map(|(n, m)| json!([n, MODE_BY_INDEX[*m as usize]])).collect::<Vec<_>>()});
            }
            PlanEvent::NoPlan => {
                head["noplan"] = json!(true);
            }
        }
    }
    (head, iters)
}

/// returns the case record(s): the main record (Plan + Encode events, C18) and, for C19, records carrying the
/// planner's per-iteration events in chunks
pub fn run_case(idx: usize, c: &PlanCase, focus: &str) -> Vec<Value> {
    let list = SymbolList::with_whitelist(c.list.iter().copied());
    let caps: Vec<usize> = list.iter().map(capacity_of).collect();
    let modes = modes_from_mask(c.modes);
    let mut out = Vec::new();
    let _ = take_plan_trace();
    set_case(idx, "encodation_plan");
    let (inp, l2) = (c.input.clone(), list.clone());
    let t0 = std::time::Instant::now();
    let r = guarded(move || data::encodation_plan(&inp, &l2, modes));
    let ms_plan = t0.elapsed().as_millis() as u64;
    let (head, iters) = hook_json(&take_plan_trace());
    let pres = match r {
        Outcome::Val(Some(p)) => json!({"kind": "Some", "plan": p.iter().map(|(n, m)| json!([n, mode_name(*m)])).collect::<Vec<_>>()}),
        Outcome::Val(None) => json!({"kind": "None"}),
        Outcome::Panic(l, m) => panic_json(&l, &m),
    };
    set_case(idx, "encode_data");
    let (inp, l2) = (c.input.clone(), list.clone());
    let t0 = std::time::Instant::now();
    let r = guarded(move || data::encode_data(&inp, &l2, None, modes, false));
    let ms_enc = t0.elapsed().as_millis() as u64;
    let enc_trace = take_plan_trace();
    let enc_starts = enc_trace.iter().filter(|e| matches!(e, PlanEvent::Start { .. })).count();
    let enc_steps: u64 = enc_trace
        .iter()
        .map(|e| match e {
            PlanEvent::Iterate { stepped, switch_calls, .. } => (*stepped + 5 * *switch_calls) as u64,
            _ => 0,
        })
        .sum();
    let (head2, _iters2) = hook_json(&enc_trace);
    let eres = match r {
        Outcome::Val(Ok((cw, size))) => json!({"kind": "Ok", "size": size_name(size), "data": bytes_json(&cw)}),
        Outcome::Val(Err(e)) => json!({"kind": "Err", "err": format!("{:?}", e)}),
        Outcome::Panic(l, m) => panic_json(&l, &m),
    };
    let base = json!({"fam": "plan", "stratum": c.stratum, "input": bytes_json(&c.input), "n": c.input.len(), "modes": c.modes,
                      "list": list_json(&list), "caps": caps});
    if focus == "C19" {
        // per-iteration events, chunked; each chunk knows how many plans were alive before it and the steps so far
        let mut prev_alive = head["start"]["seeds"].as_u64().unwrap_or(1);
        let mut steps_before = 0u64;
        let total_chunks = (iters.len() + ITER_CHUNK - 1) / ITER_CHUNK;
        for (k, ch) in iters.chunks(ITER_CHUNK).enumerate() {
            let mut r = json!({"id": idx * 100 + k, "fam": "plan", "stratum": c.stratum, "n": c.input.len(), "modes": c.modes, "part": k, "parts": total_chunks,
                               "prevAlive": prev_alive, "stepsBefore": steps_before, "start": head["start"], "ms": ms_plan,
                               "events": ch.iter().map(|i| { let mut e = i.clone(); e["ev"] = json!("Iterate"); e }).collect::<Vec<_>>()});
            if k == 0 {
                // all planner work done by one encode_data() call (it must plan once, linearly)
                r["enc"] = json!({"starts": enc_starts, "steps": enc_steps, "ms": ms_enc, "kind": eres["kind"].clone()});
                r["inputHead"] = bytes_json(&c.input[..c.input.len().min(32)]);
                r["list"] = json!(list.iter().count());
                r["planKind"] = pres["kind"].clone();
                if pres["kind"] == "Panic" {
                    r["panic"] = pres.clone();
                }
            }
            for i in ch {
                steps_before += i["stepped"].as_u64().unwrap_or(0) + 5 * i["calls"].as_u64().unwrap_or(0);
                prev_alive = i["aliveCount"].as_u64().unwrap_or(0);
            }
            out.push(r);
        }
        if iters.is_empty() {
            let mut r = json!({"id": idx * 100, "fam": "plan", "stratum": c.stratum, "n": c.input.len(), "modes": c.modes, "part": 0, "parts": 0,
                               "prevAlive": prev_alive, "stepsBefore": 0, "start": head["start"], "ms": ms_plan, "events": [], "planKind": pres["kind"].clone()});
            if pres["kind"] == "Panic" {
                r["panic"] = pres.clone();
            }
            out.push(r);
        }
    } else {
        let mut r = base;
        r["id"] = json!(idx);
        r["events"] = json!([{"ev": "Plan", "res": pres, "hook": head}, {"ev": "Encode", "res": eres, "hook": head2}]);
        out.push(r);
    }
    out
}
