//! "rs" family: EncodeEcc(size, data) -> ecc . Corrupt(errs) . Correct -> (result, word)
//! Used by C03 C05 C06 C09.
use crate::catalogue::*;
use crate::util::*;
use datamatrix::errorcode;
use serde_json::{json, Value};

pub struct RsCase {
    pub stratum: &'static str,
    pub size: &'static Sym,
    /// data vector to encode (None: no codeword, `recv` is given directly)
    pub data: Option<Vec<u8>>,
    /// errors applied to the sent word: (0-based index into data++ecc, xor value)
    pub errs: Vec<(usize, u8)>,
    /// polynomial additions: (block, coefficients highest degree first aligned to the END of the block word)
    pub recv: Option<Vec<u8>>,
    pub correct: bool,
}

fn rand_vec(rng: &mut Rng, n: usize) -> Vec<u8> {
    (0..n).map(|_| rng.byte()).collect()
}
fn sparse_vec(rng: &mut Rng, n: usize, keep_num: usize, keep_den: usize) -> Vec<u8> {
    (0..n)
        .map(|_| if rng.chance(keep_num, keep_den) { rng.byte() } else { 0 })
        .collect()
}
fn nz(rng: &mut Rng) -> u8 {
    match rng.below(4) {
        0 => 1,
        1 => 0x80,
        2 => 0xFF,
        _ => 1 + rng.below(255) as u8,
    }
}

/// `w` distinct positions out of `pool`
fn choose(rng: &mut Rng, pool: &[usize], w: usize) -> Vec<usize> {
    let mut p = pool.to_vec();
    let mut out = Vec::new();
    for _ in 0..w.min(p.len()) {
        let i = rng.below(p.len());
        out.push(p.swap_remove(i));
    }
    out
}

/// add the polynomial `poly` (highest degree first) times x^shift into block b of `word`
fn add_poly(word: &mut [u8], s: &Sym, b: usize, poly: &[u8], shift: usize) -> bool {
    let pos = s.block_positions(b);
    let n = pos.len();
    if poly.len() + shift > n {
        return false;
    }
    // coefficient of x^d sits at block index n-1-d
    let deg = poly.len() - 1;
    for (i, c) in poly.iter().enumerate() {
        let d = deg - i + shift;
        word[pos[n - 1 - d]] ^= *c;
    }
    true
}

pub fn cases(tier: &str, seed: u64, focus: &str) -> Vec<RsCase> {
    let thorough = tier == "thorough";
    let mut rng = Rng::new(seed, 0x125);
    let gf = Gf::new();
    let mut out = Vec::new();
    let sizes: Vec<&'static Sym> = CATALOGUE.iter().collect();

    // ---------------------------------------------------------------- C06: the encoder
    if focus == "C06" {
        for s in &sizes {
            let n = s.data;
            let mut push = |stratum: &'static str, data: Vec<u8>| {
                out.push(RsCase { stratum, size: s, data: Some(data), errs: vec![], recv: None, correct: false });
            };
            push("zero", vec![0; n]);
            push("allFF", vec![0xFF; n]);
            // unit vectors: the last data position of a block makes ecc = generator coefficients
            let unit_positions: Vec<usize> = if thorough {
                (0..n).collect()
            } else {
                let mut v = Vec::new();
                for b in 0..s.blocks {
                    let pos = s.block_positions(b);
                    let nd = s.ndata_in_block(b);
                    v.push(pos[0]);
                    v.push(pos[nd - 1]);
                    v.push(pos[rng.below(nd)]);
                }
                v.sort();
                v.dedup();
                v
            };
            for p in unit_positions {
                let mut d = vec![0u8; n];
                d[p] = 1;
                push("unit", d);
                if !thorough || rng.chance(1, 8) {
                    let mut d = vec![0u8; n];
                    d[p] = *rng.pick(&[2u8, 0xFF, 0x80, 0x53]);
                    push("unitScaled", d);
                }
            }
            let nr = if thorough { 40 } else { 4 };
            for _ in 0..nr {
                push("random", rand_vec(&mut rng, n));
            }
            // sparse vectors: zero codewords arriving at many different register states
            let ns = if thorough { 60 } else { 8 };
            for k in 0..ns {
                let d = match k % 3 {
                    0 => sparse_vec(&mut rng, n, 1, 10),
                    1 => sparse_vec(&mut rng, n, 1, 3),
                    _ => {
                        // a few non-zero codewords at the start, zeros afterwards
                        let mut d = vec![0u8; n];
                        let m = rng.range(1, 3.min(n));
                        for x in d.iter_mut().take(m) {
                            *x = rng.byte();
                        }
                        d
                    }
                };
                push("sparse", d);
            }
        }
        // 10x10 (3 data codewords, 5 ec): every two-codeword prefix followed by a zero codeword is cheap
        let s10 = by_name("Square10").unwrap();
        let lim = if thorough { 256 } else { 24 };
        for a in 1..lim {
            for b in 0..lim {
                out.push(RsCase { stratum: "sq10pairs", size: s10, data: Some(vec![a as u8, b as u8, 0]), errs: vec![], recv: None, correct: false });
            }
        }
        return out;
    }

    // ---------------------------------------------------------------- C12: block structure of every size
    if focus == "C12" {
        for s in &sizes {
            for _ in 0..(if thorough { 6 } else { 2 }) {
                out.push(RsCase { stratum: "random", size: s, data: Some(rand_vec(&mut rng, s.data)), errs: vec![], recv: None, correct: false });
            }
        }
        return out;
    }

    // ---------------------------------------------------------------- C03: errors within capacity
    if focus == "C03" {
        for s in &sizes {
            let t = s.ec / 2;
            let reps = if thorough { 12 } else { 1 };
            for _ in 0..reps {
                for b in 0..s.blocks {
                    let pos = s.block_positions(b);
                    let nd = s.ndata_in_block(b);
                    let dpos = &pos[..nd];
                    let epos = &pos[nd..];
                    let mut pats: Vec<(&'static str, Vec<usize>)> = Vec::new();
                    pats.push(("w1data", choose(&mut rng, dpos, 1)));
                    pats.push(("w1ec", choose(&mut rng, epos, 1)));
                    pats.push(("firstData", vec![dpos[0]]));
                    pats.push(("lastData", vec![dpos[nd - 1]]));
                    pats.push(("firstEc", vec![epos[0]]));
                    pats.push(("lastEc", vec![epos[epos.len() - 1]]));
                    pats.push(("tData", choose(&mut rng, dpos, t)));
                    pats.push(("tEc", choose(&mut rng, epos, t)));
                    let mut split = choose(&mut rng, dpos, t / 2);
                    split.extend(choose(&mut rng, epos, t - split.len()));
                    pats.push(("tSplit", split));
                    let w = rng.range(1, t);
                    pats.push(("wAny", choose(&mut rng, &pos, w)));
                    // burst of adjacent block positions ending at the last ec codeword
                    let st = pos.len() - t;
                    pats.push(("burstEnd", pos[st..].to_vec()));
                    let st = rng.below(pos.len() - t + 1);
                    pats.push(("burst", pos[st..st + t].to_vec()));
                    for (name, p) in pats {
                        let errs = p.into_iter().map(|i| (i, nz(&mut rng))).collect();
                        out.push(RsCase { stratum: name, size: s, data: Some(rand_vec(&mut rng, s.data)), errs, recv: None, correct: true });
                    }
                }
                // all blocks at weight t simultaneously
                let mut errs = Vec::new();
                for b in 0..s.blocks {
                    for i in choose(&mut rng, &s.block_positions(b), t) {
                        errs.push((i, nz(&mut rng)));
                    }
                }
                out.push(RsCase { stratum: "allBlocksT", size: s, data: Some(rand_vec(&mut rng, s.data)), errs, recv: None, correct: true });
                // no error at all
                out.push(RsCase { stratum: "noError", size: s, data: Some(rand_vec(&mut rng, s.data)), errs: vec![], recv: None, correct: true });
            }
        }
        // within capacity but on the thin sets: error values chosen so that the first m syndromes of the block vanish
        for s in &sizes {
            let t = s.ec / 2;
            if t < 2 {
                continue;
            }
            let reps = if thorough { 6 } else { 2 };
            for b in 0..s.blocks {
                let pos = s.block_positions(b);
                let n = pos.len();
                for w in [2usize, 3, t / 2 + 1, t] {
                    if w > t || w < 2 {
                        continue;
                    }
                    for m in [1usize, w / 2, w - 1] {
                        if m < 1 || m >= w {
                            continue;
                        }
                        for _ in 0..reps {
                            let idxs = choose(&mut rng, &(0..n).collect::<Vec<_>>(), w);
                            let degs: Vec<usize> = idxs.iter().map(|i| n - 1 - i).collect();
                            let free: Vec<u8> = (0..w - m).map(|_| nz(&mut rng)).collect();
                            if let Some(y) = gf.values_with_zero_syndromes(&degs, m, &free) {
                                let errs = idxs.iter().zip(y.iter()).map(|(i, v)| (pos[*i], *v)).collect();
                                out.push(RsCase { stratum: "zeroSyndromesWithin", size: s, data: Some(rand_vec(&mut rng, s.data)), errs, recv: None, correct: true });
                            }
                        }
                    }
                }
                if s.blocks > 2 && b == 1 && !thorough {
                    break;
                }
            }
        }
        // within capacity, syndrome vector of low rank at the start: u errors plus a second pattern whose first 2u+m syndromes
        // vanish.  The Hankel matrices H_{u+1}..H_{u+m} are then singular and H_{u+m+1} is regular again - the decoder's
        // "singular step of length m" (m = 1 is what random errors produce, m >= 2 is reached only this way).
        for s in &sizes {
            let t = s.ec / 2;
            if t < 5 {
                continue;
            }
            let reps = if thorough { 6 } else { 2 };
            for b in 0..s.blocks {
                let pos = s.block_positions(b);
                let n = pos.len();
                for (u, m) in [(1usize, 1usize), (1, 2), (1, 3), (1, 4), (1, 6), (2, 1), (2, 2), (2, 3), (3, 1), (3, 2), (4, 2), (5, 3)] {
                    let z = 2 * u + m;
                    for extra in [0usize, 1, 3] {
                        let w2 = z + 1 + extra;
                        if u + w2 > t || u + w2 > n {
                            continue;
                        }
                        for _ in 0..reps {
                            let idxs = choose(&mut rng, &(0..n).collect::<Vec<_>>(), u + w2);
                            let degs: Vec<usize> = idxs[u..].iter().map(|i| n - 1 - i).collect();
                            let free: Vec<u8> = (0..w2 - z).map(|_| nz(&mut rng)).collect();
                            if let Some(y) = gf.values_with_zero_syndromes(&degs, z, &free) {
                                let mut errs: Vec<(usize, u8)> = idxs[..u].iter().map(|i| (pos[*i], nz(&mut rng))).collect();
                                errs.extend(idxs[u..].iter().zip(y.iter()).map(|(i, v)| (pos[*i], *v)));
                                out.push(RsCase { stratum: "lowRankPrefix", size: s, data: Some(rand_vec(&mut rng, s.data)), errs, recv: None, correct: true });
                            }
                        }
                    }
                }
                if s.blocks > 2 && b == 1 && !thorough {
                    break;
                }
            }
        }
        // 10x10 (t = 2): every position pair, second value chosen so that S1 = 0
        let s10 = by_name("Square10").unwrap();
        for i in 0..8 {
            for j in i + 1..8 {
                for v in [1u8, 2, 0x53, 0xFF] {
                    if let Some(y) = gf.values_with_zero_syndromes(&[7 - i, 7 - j], 1, &[v]) {
                        out.push(RsCase { stratum: "zeroSyndromesWithin", size: s10, data: Some(rand_vec(&mut rng, 3)), errs: vec![(i, y[0]), (j, y[1])], recv: None, correct: true });
                    }
                }
            }
        }
        // small sizes: all position sets of weight <= 2 (one fixed data vector)
        for s in sizes.iter().filter(|s| s.total() <= 24 && s.ec / 2 >= 2) {
            let n = s.total();
            let data = rand_vec(&mut rng, s.data);
            for i in 0..n {
                for j in i + 1..n {
                    if thorough || rng.chance(1, 3) {
                        out.push(RsCase { stratum: "allPairs", size: s, data: Some(data.clone()), errs: vec![(i, nz(&mut rng)), (j, nz(&mut rng))], recv: None, correct: true });
                    }
                }
            }
        }
        return out;
    }

    // ---------------------------------------------------------------- C09 / C05: beyond capacity
    let c05 = focus == "C05";
    if focus == "C09" {
        thin_storm(thorough, seed, &gf, &mut out);
    }
    for s in &sizes {
        let k = s.ec;
        let t = k / 2;
        let big = s.total() > 400;
        // (a) c + e + g with g a multiple of prod_{i<=m}(x - alpha^i): first m syndromes of g vanish
        let ms: Vec<usize> = if c05 {
            (0..k).collect() // leading zero runs of every length
        } else {
            // m = k: a multiple of the generator itself - a different codeword, the decoder legitimately succeeds
            (2 * t.saturating_sub(1)..=k).collect()
        };
        for m in ms {
            let reps = if thorough { 6 } else if big { 1 } else { 2 };
            for _ in 0..reps {
                for b in [0, s.blocks - 1] {
                    let data = rand_vec(&mut rng, s.data);
                    let poly0 = gf.root_poly(m);
                    let sc = nz(&mut rng);
                    let poly: Vec<u8> = poly0.iter().map(|c| gf.mul(*c, sc)).collect();
                    let npos = s.block_positions(b).len();
                    if poly.len() > npos {
                        continue;
                    }
                    let shift = rng.below(npos - poly.len() + 1);
                    // e: up to t-1 further errors in the same block (C09) or none
                    let extra = if c05 { 0 } else { rng.below(t.max(1)) };
                    let errs: Vec<(usize, u8)> = choose(&mut rng, &s.block_positions(b), extra).into_iter().map(|i| (i, nz(&mut rng))).collect();
                    out.push(RsCase { stratum: "rootMultiple", size: s, data: Some(data), errs, recv: Some(vec![b as u8, shift as u8, (shift >> 8) as u8].into_iter().chain(poly.into_iter()).collect()), correct: true });
                    if s.blocks == 1 {
                        break;
                    }
                }
            }
        }
        // (b) distance t+1, t+2, ..., in one block
        for extra in [1usize, 2, 3, k] {
            let reps = if thorough { 10 } else if big { 1 } else { 3 };
            for _ in 0..reps {
                let b = rng.below(s.blocks);
                let pos = s.block_positions(b);
                let w = (t + extra).min(pos.len());
                let errs = choose(&mut rng, &pos, w).into_iter().map(|i| (i, nz(&mut rng))).collect();
                out.push(RsCase { stratum: "beyond", size: s, data: Some(rand_vec(&mut rng, s.data)), errs, recv: None, correct: true });
            }
        }
        // (c) uniformly random words
        let nr = if s.total() <= 40 {
            if thorough { 20000 } else if s.total() <= 12 { 4000 } else { 300 }
        } else if thorough { 40 } else { 2 };
        for _ in 0..nr {
            let mut w = vec![0xFFu8, 0xFF, 0xFF];
            w.extend(rand_vec(&mut rng, s.total()));
            out.push(RsCase { stratum: "randomWord", size: s, data: None, errs: vec![], recv: Some(w), correct: true });
        }
        // (f) syndromes of a genuine u-error pattern with one structured perturbation (a single syndrome changed, or the
        // tail rescaled = "restarted amplitude"): the decoder's consistency checks each cover only part of the vector
        {
            let reps = if thorough { 4 } else { 1 };
            let npos = s.block_positions(0).len();
            for u in [1usize, 2, t.saturating_sub(1).max(1), t] {
                if u > t || u > npos {
                    continue;
                }
                for kind in 0..8usize {
                    for _ in 0..reps {
                        // syndromes S_j = sum_i y_i X_i^j, j = 1..k, of u errors at distinct degrees
                        let degs = choose(&mut rng, &(0..npos).collect::<Vec<_>>(), u);
                        let ys: Vec<u8> = (0..u).map(|_| nz(&mut rng)).collect();
                        let mut syn: Vec<u8> = (1..=k).map(|j| degs.iter().zip(ys.iter()).fold(0u8, |acc, (d, y)| acc ^ gf.mul(*y, gf.pow(j * d)))).collect();
                        let delta = nz(&mut rng);
                        let c = nz(&mut rng);
                        match kind {
                            0 => syn[0] ^= delta,
                            1 => syn[k - 1] ^= delta,
                            2 => syn[t.min(k - 1)] ^= delta,
                            3 => syn[t.saturating_sub(1)] ^= delta,
                            4 => { for x in syn.iter_mut().skip(t) { *x = gf.mul(*x, c); } }
                            5 => { for x in syn.iter_mut().skip(t.saturating_sub(1)) { *x = gf.mul(*x, c); } }
                            6 => { if k > 1 { syn[1] ^= delta; } }
                            _ => { for x in syn.iter_mut().skip(u) { *x = gf.mul(*x, c); } }
                        }
                        if let Some(e) = gf.solve_syndromes(&syn) {
                            let poly: Vec<u8> = e.iter().rev().copied().collect();
                            out.push(RsCase { stratum: "perturbedSyndromes", size: s, data: Some(rand_vec(&mut rng, s.data)), errs: vec![], recv: Some(vec![0, 0, 0].into_iter().chain(poly.into_iter()).collect()), correct: true });
                        }
                    }
                }
            }
        }
        // (e) C05: received words with a prescribed zero pattern of the syndrome vector of one block
        if c05 {
            let mut pats: Vec<Vec<bool>> = Vec::new(); // true = zero
            if k <= 7 {
                for m in 0..(1u32 << k) - 1 {
                    pats.push((0..k).map(|i| m & (1 << i) != 0).collect());
                }
            } else {
                for i in 0..k {
                    pats.push((0..k).map(|j| j == i).collect()); // single zero
                    pats.push((0..k).map(|j| j == i || j == i + 1).collect()); // double zero
                    if thorough {
                        pats.push((0..k).map(|j| j != i).collect()); // single non-zero
                        pats.push((0..k).map(|j| j >= i).collect()); // trailing zeros
                    }
                }
                pats.push((0..k).map(|j| j % 2 == 0).collect());
                pats.push((0..k).map(|j| j % 2 == 1).collect());
                pats.push((0..k).map(|j| j >= 1 && j <= k / 2).collect()); // S1 != 0, then t zeros
                pats.push((0..k).map(|j| j >= 1).collect());
                for _ in 0..(if thorough { 40 } else { 6 }) {
                    let p = rng.range(1, 3);
                    pats.push((0..k).map(|_| rng.chance(p, 4)).collect());
                }
            }
            for pat in pats {
                for b in [0, s.blocks - 1] {
                    let syn: Vec<u8> = pat.iter().map(|z| if *z { 0 } else { nz(&mut rng) }).collect();
                    if let Some(e) = gf.solve_syndromes(&syn) {
                        // e_d is the coefficient of x^d: as polynomial highest degree first
                        let poly: Vec<u8> = e.iter().rev().copied().collect();
                        out.push(RsCase { stratum: "prescribed", size: s, data: Some(rand_vec(&mut rng, s.data)), errs: vec![], recv: Some(vec![b as u8, 0, 0].into_iter().chain(poly.into_iter()).collect()), correct: true });
                    }
                    if s.blocks == 1 {
                        break;
                    }
                }
            }
        }
        // (d) C05: single zero syndromes / alternating patterns are reached through random low-weight
        // combinations of root multiples: add two root multiples with different m
        if c05 {
            let reps = if thorough { 30 } else { 4 };
            for _ in 0..reps {
                let data = rand_vec(&mut rng, s.data);
                let m = rng.below(k);
                let poly = gf.root_poly(m);
                let npos = s.block_positions(0).len();
                if poly.len() > npos {
                    continue;
                }
                let shift = rng.below(npos - poly.len() + 1);
                let w = rng.range(1, 3);
                let errs = choose(&mut rng, &s.block_positions(0), w).into_iter().map(|i| (i, nz(&mut rng))).collect();
                out.push(RsCase { stratum: "rootMultiplePlus", size: s, data: Some(data), errs, recv: Some(vec![0, shift as u8, (shift >> 8) as u8].into_iter().chain(poly.into_iter()).collect()), correct: true });
            }
        }
    }
    out
}

/// C09 storm: for the small single-block sizes, tens of millions of received words drawn from thin sets of the syndrome
/// space (prescribed zero patterns at the start of the syndrome vector, the rest uniform).  Only the words on which the
/// implementation reports success (or panics) are kept - C09 speaks about reported successes only - and each of
/// those becomes an ordinary recorded case that the specification judges.  Deterministic for a given seed.
pub static STORM_CALLS: std::sync::atomic::AtomicU64 = std::sync::atomic::AtomicU64::new(0);
fn thin_storm(thorough: bool, seed: u64, gf: &Gf, out: &mut Vec<RsCase>) {
    use datamatrix::errorcode;
    let masks: [&[usize]; 10] = [&[], &[0], &[1], &[0, 1], &[2], &[0, 2], &[1, 2], &[0, 1, 2], &[3], &[0, 1, 2, 3]];
    const THREADS: u64 = 16;
    set_case(0, "decode_error (storm)");
    for s in CATALOGUE.iter().filter(|s| s.blocks == 1 && s.total() <= 24) {
        let size = size_by_name(s.name).unwrap();
        let k = s.ec;
        let n = s.total();
        // e = M * syn: invert the k x k matrix (alpha^{j d}), j = 1..k, d = 0..k-1, by solving for the unit vectors
        let cols: Vec<Vec<u8>> = (0..k)
            .map(|j| {
                let mut unit = vec![0u8; k];
                unit[j] = 1;
                gf.solve_syndromes(&unit).expect("vandermonde")
            })
            .collect();
        let c0: Vec<u8> = {
            let data: Vec<u8> = (0..s.data).map(|i| (i * 29 + 7) as u8).collect();
            let mut w = data.clone();
            w.extend(errorcode::encode_error(&data, size));
            w
        };
        for (mi, mask) in masks.iter().enumerate() {
            if mask.iter().any(|z| *z >= k) {
                continue;
            }
            let t = k / 2;
            // the thin sets with t leading zeros (the decoder's start order is then maximal) get the largest share
            let weight: u64 = if t <= 3 && **mask == [0, 1] { 40 } else if t <= 3 && mask.len() <= 3 && !mask.is_empty() && mask[0] <= 1 { 4 } else { 1 };
            let per_thread: u64 = weight * if thorough { 500_000 } else { 60_000 };
            let found: Vec<Vec<u8>> = std::thread::scope(|sc| {
                let handles: Vec<_> = (0..THREADS)
                    .map(|ti| {
                        let cols = &cols;
                        let c0 = &c0;
                        sc.spawn(move || {
                            let mut rng = Rng::new(seed, 0x5709_0000 + (s.total() as u64) * 4096 + (mi as u64) * 64 + ti);
                            let mut keep: Vec<Vec<u8>> = Vec::new();
                            let mut syn = vec![0u8; k];
                            let mut done = 0u64;
                            for it in 0..per_thread {
                                done += 1;
                                if it % 4096 == 0 {
                                    storm_beat(ti as usize, true);
                                }
                                for (j, x) in syn.iter_mut().enumerate() {
                                    *x = if mask.contains(&j) { 0 } else { rng.byte() };
                                }
                                let mut w = c0.clone();
                                for (j, sj) in syn.iter().enumerate() {
                                    if *sj != 0 {
                                        for d in 0..k {
                                            w[n - 1 - d] ^= gf.mul(cols[j][d], *sj);
                                        }
                                    }
                                }
                                if w == *c0 {
                                    continue;
                                }
                                let orig = w.clone();
                                let r = std::panic::catch_unwind(std::panic::AssertUnwindSafe(|| errorcode::decode_error(&mut w, size).is_ok()));
                                if !matches!(r, Ok(false)) {
                                    keep.push(orig);
                                    if keep.len() >= 60 {
                                        break;
                                    }
                                }
                            }
                            storm_beat(ti as usize, false);
                            STORM_CALLS.fetch_add(done, std::sync::atomic::Ordering::Relaxed);
                            keep
                        })
                    })
                    .collect();
                handles.into_iter().flat_map(|h| h.join().unwrap_or_default()).collect()
            });
            for w in found {
                let mut spec = vec![0xFFu8, 0xFF, 0xFF];
                spec.extend(w);
                out.push(RsCase { stratum: "thinStorm", size: s, data: None, errs: vec![], recv: Some(spec), correct: true });
            }
        }
    }
}

pub fn run_case(idx: usize, c: &RsCase, profile: &str) -> Value {
    let size = size_by_name(c.size.name).expect("size name");
    let mut events = Vec::new();
    let mut sent: Option<Vec<u8>> = None;
    if let Some(data) = &c.data {
        set_case(idx, "encode_error");
        let d = data.clone();
        let r = guarded(move || errorcode::encode_error(&d, size));
        match r {
            Outcome::Val(ecc) => {
                events.push(json!({"ev": "EncodeEcc", "res": {"kind": "Ok", "ecc": bytes_json(&ecc)}}));
                let mut w = data.clone();
                w.extend_from_slice(&ecc);
                sent = Some(w);
            }
            Outcome::Panic(l, m) => events.push(json!({"ev": "EncodeEcc", "res": panic_json(&l, &m)})),
        }
    }
    let mut rec = json!({"id": idx, "fam": "rs", "stratum": c.stratum, "profile": profile, "size": c.size.name,
                         "hasSent": sent.is_some()});
    if c.correct {
        // build the received word
        let mut recv: Option<Vec<u8>> = None;
        let mut errs_json: Vec<Value> = Vec::new();
        if let Some(s) = &sent {
            let mut w = s.clone();
            if w.len() == c.size.total() {
                let mut delta = vec![0u8; w.len()];
                for (i, x) in &c.errs {
                    delta[*i] ^= *x;
                }
                if let Some(spec) = &c.recv {
                    // root-multiple polynomial: [block, shift lo, shift hi, coefficients...]
                    let b = spec[0] as usize;
                    let shift = spec[1] as usize | ((spec[2] as usize) << 8);
                    add_poly(&mut delta, c.size, b, &spec[3..], shift);
                }
                for (i, d) in delta.iter().enumerate() {
                    if *d != 0 {
                        w[i] ^= *d;
                        errs_json.push(json!([i + 1, *d]));
                    }
                }
                recv = Some(w);
            }
        } else if let Some(spec) = &c.recv {
            recv = Some(spec[3..].to_vec());
        }
        if let Some(recv) = recv {
            if sent.is_some() {
                rec["sent"] = bytes_json(sent.as_ref().unwrap());
                rec["errs"] = Value::Array(errs_json);
            } else {
                rec["recv"] = bytes_json(&recv);
            }
            set_case(idx, "decode_error");
            let mut w = recv.clone();
            let r = guarded(move || {
                let r = errorcode::decode_error(&mut w, size);
                (r.map_err(|e| format!("{:?}", e)), w)
            });
            let res = match r {
                Outcome::Val((Ok(()), w)) => {
                    let fix: Vec<Value> = w.iter().zip(recv.iter()).enumerate().filter(|(_, (a, b))| a != b).map(|(i, (a, _))| json!([i + 1, *a])).collect();
                    json!({"kind": "Ok", "fix": fix, "len": w.len()})
                }
                Outcome::Val((Err(e), _)) => json!({"kind": "Err", "err": e}),
                Outcome::Panic(l, m) => panic_json(&l, &m),
            };
            events.push(json!({"ev": "Correct", "res": res}));
        }
    } else if let Some(s) = &sent {
        rec["sent"] = bytes_json(s);
        rec["errs"] = json!([]);
    }
    rec["events"] = Value::Array(events);
    rec
}
