//! "str" family (C14, C15) and "dec" family (C05, data codewords part).
use crate::strings::*;
use crate::util::*;
use datamatrix::data::{self, DataDecodingError};
use datamatrix::{DataMatrixBuilder, SymbolList};
use serde_json::{json, Value};

fn str_result(r: Outcome<Result<String, DataDecodingError>>) -> Value {
    match r {
        Outcome::Val(Ok(s)) => json!({"k": "ok", "cps": s.chars().map(|c| c as u32).collect::<Vec<_>>()}),
        Outcome::Val(Err(DataDecodingError::UnexpectedCharacter(m, _))) => json!({"k": "rej", "msg": m}),
        Outcome::Val(Err(DataDecodingError::UnexpectedEnd)) => json!({"k": "end"}),
        Outcome::Val(Err(DataDecodingError::CharsetError)) => json!({"k": "charset"}),
        Outcome::Val(Err(DataDecodingError::NotImplemented(_))) => json!({"k": "notimpl"}),
        Outcome::Val(Err(DataDecodingError::ECICode)) => json!({"k": "ecicode"}),
        Outcome::Panic(l, m) => json!({"k": "panic", "loc": l, "msg": m.chars().take(80).collect::<String>()}),
    }
}
fn decode_str_of(stream: Vec<u8>) -> Value {
    str_result(guarded(move || data::decode_str(&stream)))
}
fn ascii_cw(b: u8) -> Vec<u8> {
    if b < 128 {
        vec![b + 1]
    } else {
        vec![235, b - 127]
    }
}
fn rnd255(v: u8, pos: usize) -> u8 {
    let t = v as usize + ((149 * pos) % 255) + 1;
    if t <= 255 { t as u8 } else { (t - 256) as u8 }
}

// representatives of the Unicode classes
const REPS: [u32; 17] = [0x41, 0x7E, 0x20, 0x31, 0x0A, 0x1D, 0x7F, 0x80, 0x9F, 0xA0, 0xE9, 0xFF, 0x100, 0x20AC, 0xFFFF, 0x1F978, 0xFEFF];

fn rand_scalar(rng: &mut Rng) -> u32 {
    loop {
        let c = match rng.below(8) {
            0 | 1 => 0x20 + rng.below(0x5F) as u32,
            2 => 0xA0 + rng.below(0x60) as u32,
            3 => rng.below(0x20) as u32,
            4 => 0x80 + rng.below(0x20) as u32,
            5 => 0x100 + rng.below(0xFF00) as u32,
            6 => 0x10000 + rng.below(0x100000) as u32,
            _ => *rng.pick(&[0x7Fu32, 0xFFFF, 0x10FFFF, 0xD7FF, 0xE000, 0x7FF, 0x800]),
        };
        if char::from_u32(c).is_some() {
            return c;
        }
    }
}

fn encode_str_case(idx: usize, stratum: &'static str, cps: &[u32], macros: bool) -> Value {
    encode_str_case_modes(idx, stratum, cps, macros, 63)
}

fn encode_str_case_modes(idx: usize, stratum: &'static str, cps: &[u32], macros: bool, modes: u8) -> Value {
    let s: String = cps.iter().filter_map(|c| char::from_u32(*c)).collect();
    set_case(idx, "encode_str");
    let s2 = s.clone();
    let r = guarded(move || {
        DataMatrixBuilder::new().with_symbol_list(SymbolList::default()).with_macros(macros).with_encodation_types(modes_from_mask(modes)).encode_str(&s2)
    });
    let mut events = Vec::new();
    match r {
        Outcome::Val(Ok(d)) => {
            events.push(json!({"ev": "EncodeStr", "res": {"kind": "Ok", "size": size_name(d.size), "data": bytes_json(d.data_codewords())}}));
            events.push(json!({"ev": "DecodeStr", "res": decode_str_of(d.data_codewords().to_vec())}));
        }
        Outcome::Val(Err(e)) => events.push(json!({"ev": "EncodeStr", "res": {"kind": "Err", "err": format!("{:?}", e)}})),
        Outcome::Panic(l, m) => events.push(json!({"ev": "EncodeStr", "res": panic_json(&l, &m)})),
    }
    json!({"id": idx, "fam": "str", "stratum": stratum, "cps": cps, "macro": macros, "modes": modes, "events": events})
}

pub fn run(tier: &str, seed: u64, focus: &str, out: &mut Out) {
    let thorough = tier == "thorough";
    let mut rng = Rng::new(seed, 0x57A);
    let mut idx = 0usize;
    let mut next = || {
        idx += 1;
        idx
    };
    if focus == "C14" {
        // (1) all strings over 16 representatives up to length 3 (quick: length <= 2 plus a third of length 3)
        let mut layer: Vec<Vec<u32>> = vec![vec![]];
        let mut all: Vec<Vec<u32>> = vec![vec![]];
        for _ in 0..3 {
            let mut nl = Vec::new();
            for s in &layer {
                for r in REPS {
                    let mut t = s.clone();
                    t.push(r);
                    nl.push(t);
                }
            }
            all.extend(nl.iter().cloned());
            layer = nl;
        }
        for s in &all {
            if thorough || s.len() <= 2 || rng.chance(1, 3) {
                out.put(&encode_str_case(next(), "reps", s, true));
            }
        }
        // (2) random strings
        for _ in 0..(if thorough { 30000 } else { 600 }) {
            let n = rng.log_range(0, 600);
            let latin = rng.chance(1, 3);
            let s: Vec<u32> = (0..n).map(|_| if latin { if rng.chance(1, 3) { 0xA0 + rng.below(0x60) as u32 } else { 0x20 + rng.below(0x5F) as u32 } } else { rand_scalar(&mut rng) }).collect();
            out.put(&encode_str_case(next(), "random", &s, rng.chance(3, 4)));
        }
        // (2b) runs of one class with a few unusual scalars inside (UTF-8 continuation bytes 0x80..0xBF inside C40/Text/X12 runs)
        let odd: [u32; 14] = [0x80, 0x85, 0x9F, 0x100, 0x153, 0x17F, 0x20AC, 0x2028, 0x1F600, 0xA0, 0x7F, 0x0A, 0xFEFF, 0xC9];
        for _ in 0..(if thorough { 20000 } else { 500 }) {
            let c = *rng.pick(&[Class::Upper, Class::Lower, Class::Digits, Class::X12, Class::EdifactPunct, Class::UpperDigit, Class::LowerSpace]);
            let n = rng.range(4, 40);
            let mut s: Vec<u32> = class_string(&mut rng, c, n).into_iter().map(|x| x as u32).collect();
            for _ in 0..rng.range(1, 3) {
                let pos = rng.below(s.len() + 1);
                s.insert(pos, *rng.pick(&odd));
            }
            out.put(&encode_str_case(next(), "runsWithOddball", &s, true));
            // the same kind of string with a restricted mode set (a third of them without ASCII)
            let mut t = s.clone();
            if rng.chance(1, 2) {
                t.push(*rng.pick(&odd));
            }
            if rng.chance(1, 3) {
                t.insert(0, 0xFEFF);
            }
            let modes = if rng.chance(1, 2) { ((1 + rng.below(31)) << 1) as u8 } else { (1 + rng.below(63)) as u8 };
            out.put(&encode_str_case_modes(next(), "restrictedModes", &t, true, modes));
        }
        // (3) macro-enveloped bodies of every tail shape
        let mut bodies: Vec<Vec<u32>> = vec![vec![], vec![0x41], vec![0x1F918]];
        for c in CLASSES {
            for n in 0..(if thorough { 40 } else { 14 }) {
                for t in 0..(if thorough { TAILS.len() } else { 2 }) {
                    let tail: &[u8] = if thorough { TAILS[t] } else { *rng.pick(&TAILS[..]) };
                    let mut b: Vec<u32> = class_string(&mut rng, c, n).into_iter().map(|x| x as u32).collect();
                    b.extend(tail.iter().map(|x| *x as u32));
                    if rng.chance(1, 4) {
                        b.push(rand_scalar(&mut rng));
                    }
                    bodies.push(b);
                }
            }
        }
        for b in bodies {
            for head in [MACRO05_HEAD, MACRO06_HEAD] {
                let mut s: Vec<u32> = head.iter().map(|x| *x as u32).collect();
                s.extend(b.iter().copied());
                s.extend(MACRO_TRAIL.iter().map(|x| *x as u32));
                out.put(&encode_str_case(next(), "envelope", &s, true));
            }
            if rng.chance(1, 4) {
                let mut s: Vec<u32> = MACRO05_HEAD.iter().map(|x| *x as u32).collect();
                s.extend(b.iter().copied());
                out.put(&encode_str_case(next(), "headOnly", &s, true));
            }
        }
        // (3b) envelopes inside envelopes; payloads that begin with a second head or end with a second trailer
        {
            let heads = [MACRO05_HEAD, MACRO06_HEAD];
            let inner: [&[u32]; 6] = [&[], &[0x41], &[0x41, 0x42, 0x43, 0x20AC], &[0x31, 0x32], &[0xE9], &[0x1F600, 0x61]];
            let u = |b: &[u8]| -> Vec<u32> { b.iter().map(|x| *x as u32).collect() };
            for h1 in heads {
                for body in inner {
                    for variant in 0..8 {
                        let mut s = u(h1);
                        match variant {
                            0 | 1 => {
                                s.extend(u(heads[variant]));
                                s.extend_from_slice(body);
                            }
                            2 | 3 => {
                                s.extend(u(heads[variant - 2]));
                                s.extend_from_slice(body);
                                s.extend(u(MACRO_TRAIL));
                            }
                            4 => {
                                s.extend_from_slice(body);
                                s.extend(u(MACRO_TRAIL));
                            }
                            5 => {
                                s.extend_from_slice(body);
                                s.extend(u(MACRO_TRAIL));
                                s.extend(u(MACRO_TRAIL));
                            }
                            6 => {
                                s.extend_from_slice(body);
                                s.extend(u(heads[0]));
                            }
                            _ => {
                                s.extend_from_slice(body);
                                s.push(0x1E);
                            }
                        }
                        s.extend(u(MACRO_TRAIL));
                        out.put(&encode_str_case(next(), "envelopeNested", &s, true));
                    }
                }
            }
        }
        // (4) helpers: utf8_to_latin1 for every scalar value, latin1_to_utf8 for every byte
        let step = 4096u32;
        let mut start = 0u32;
        while start < 0x110000 {
            if thorough || start < 0x3000 || rng.chance(1, 6) {
                let res: Vec<i32> = (start..start + step)
                    .map(|c| match char::from_u32(c) {
                        None => -2,
                        Some(ch) => {
                            let s = ch.to_string();
                            match guarded(move || data::utf8_to_latin1(&s)) {
                                Outcome::Val(Some(v)) if v.len() == 1 => v[0] as i32,
                                Outcome::Val(Some(_)) => -3,
                                Outcome::Val(None) => -1,
                                Outcome::Panic(..) => -4,
                            }
                        }
                    })
                    .collect();
                out.put(&json!({"id": next(), "fam": "str", "stratum": "utf8ToLatin1", "events": [{"ev": "Utf8ToLatin1", "start": start, "res": res}]}));
            }
            start += step;
        }
        let res: Vec<i64> = (0..=255u8)
            .map(|b| match guarded(move || data::latin1_to_utf8(&[b])) {
                Outcome::Val(Some(s)) if s.chars().count() == 1 => s.chars().next().unwrap() as i64,
                Outcome::Val(Some(_)) => -3,
                Outcome::Val(None) => -1,
                Outcome::Panic(..) => -4,
            })
            .collect();
        out.put(&json!({"id": next(), "fam": "str", "stratum": "latin1ToUtf8", "events": [{"ev": "Latin1ToUtf8", "res": res}]}));
        // multi-character helper round trips
        for _ in 0..(if thorough { 2000 } else { 300 }) {
            let n = rng.range(0, 40);
            let bytes: Vec<u8> = (0..n).map(|_| if rng.chance(1, 12) { rng.byte() } else if rng.chance(1, 2) { 0xA0 + rng.below(0x60) as u8 } else { 0x20 + rng.below(0x5F) as u8 }).collect();
            let b2 = bytes.clone();
            let fwd = match guarded(move || data::latin1_to_utf8(&b2)) {
                Outcome::Val(Some(s)) => {
                    let cps: Vec<u32> = s.chars().map(|c| c as u32).collect();
                    let back = match guarded(move || data::utf8_to_latin1(&s)) {
                        Outcome::Val(Some(v)) => json!({"k": "some", "bytes": bytes_json(&v)}),
                        Outcome::Val(None) => json!({"k": "none"}),
                        Outcome::Panic(..) => json!({"k": "panic"}),
                    };
                    json!({"k": "some", "cps": cps, "back": back})
                }
                Outcome::Val(None) => json!({"k": "none"}),
                Outcome::Panic(..) => json!({"k": "panic"}),
            };
            out.put(&json!({"id": next(), "fam": "str", "stratum": "latin1RoundTrip", "events": [{"ev": "Latin1RoundTrip", "bytes": bytes_json(&bytes), "res": fwd}]}));
        }
        return;
    }
    if focus == "C15" {
        // (a) designators written by the encoder
        let mut ns: Vec<u32> = Vec::new();
        if thorough {
            ns.extend(0..=999_999);
        } else {
            ns.extend(0..=17_500);
            ns.extend((17_501..=999_999).step_by(61));
            ns.extend([80_898, 80_899, 145_414, 145_415, 999_998, 999_999]);
        }
        for chunk in ns.chunks(1000) {
            set_case(0, "encode_eci");
            let res: Vec<Value> = chunk
                .iter()
                .map(|&n| match guarded(move || DataMatrixBuilder::new().with_symbol_list(SymbolList::default()).encode_eci(b"", Some(n))) {
                    Outcome::Val(Ok(d)) => bytes_json(&d.data_codewords()[..5.min(d.data_codewords().len())]),
                    Outcome::Val(Err(_)) => json!([0]),
                    Outcome::Panic(..) => json!([0, 0]),
                })
                .collect();
            out.put(&json!({"id": next(), "fam": "str", "stratum": "encodeEci", "events": [{"ev": "EncodeEci", "ns": chunk, "res": res}]}));
        }
        // (b) every designator sequence of one, two or three codewords, followed by the data codeword for 'A'
        let one: Vec<Value> = (0..=255u8).map(|c1| decode_str_of(vec![241, c1, 66])).collect();
        out.put(&json!({"id": next(), "fam": "str", "stratum": "designator1", "events": [{"ev": "Designators", "prefix": [], "res": one}]}));
        for c1 in 128..=191u8 {
            let r: Vec<Value> = (0..=255u8).map(|c2| decode_str_of(vec![241, c1, c2, 66])).collect();
            out.put(&json!({"id": next(), "fam": "str", "stratum": "designator2", "events": [{"ev": "Designators", "prefix": [c1], "res": r}]}));
        }
        for c1 in 192..=207u8 {
            for c2 in 0..=255u8 {
                if !thorough && !(c2 < 3 || c2 > 252 || c2 % 32 == 7) {
                    continue;
                }
                let r: Vec<Value> = (0..=255u8).map(|c3| decode_str_of(vec![241, c1, c2, c3, 66])).collect();
                out.put(&json!({"id": next(), "fam": "str", "stratum": "designator3", "events": [{"ev": "Designators", "prefix": [c1, c2], "res": r}]}));
            }
        }
        // truncated designators
        let mut trunc = Vec::new();
        for c1 in [1u8, 128, 191, 192, 207, 208, 255, 0] {
            trunc.push(json!({"stream": [241, c1], "res": decode_str_of(vec![241, c1])}));
            trunc.push(json!({"stream": [241, c1, 5], "res": decode_str_of(vec![241, c1, 5])}));
        }
        trunc.push(json!({"stream": [241], "res": decode_str_of(vec![241])}));
        out.put(&json!({"id": next(), "fam": "str", "stratum": "truncated", "events": [{"ev": "Truncated", "res": trunc}]}));
        // (c) character set tables: every byte under every supported ECI (and without ECI), ASCII- and Base256-encoded
        for eci in [-1i32, 0, 3, 11, 13, 26, 27] {
            for enc in ["ascii", "b256"] {
                let r: Vec<Value> = (0..=255u8)
                    .map(|b| {
                        let mut s: Vec<u8> = if eci >= 0 { vec![241, eci as u8 + 1] } else { vec![] };
                        if enc == "ascii" {
                            s.extend(ascii_cw(b));
                        } else {
                            let p = s.len();
                            s.push(231);
                            s.push(rnd255(1, p + 2));
                            s.push(rnd255(b, p + 3));
                        }
                        decode_str_of(s)
                    })
                    .collect();
                out.put(&json!({"id": next(), "fam": "str", "stratum": "charsetByte", "events": [{"ev": "CharsetBytes", "eci": eci, "enc": enc, "res": r}]}));
            }
        }
        // (d) UTF-8 validity: all one- and two-byte sequences, three/four-byte sequences at the boundaries
        for b1 in 0..=255u8 {
            let r: Vec<Value> = (0..=255u8)
                .map(|b2| {
                    let mut s = vec![241, 27];
                    s.extend(ascii_cw(b1));
                    s.extend(ascii_cw(b2));
                    decode_str_of(s)
                })
                .collect();
            out.put(&json!({"id": next(), "fam": "str", "stratum": "utf8pairs", "events": [{"ev": "Utf8Pairs", "b1": b1, "res": r}]}));
        }
        let mut seqs: Vec<Vec<u8>> = Vec::new();
        for b1 in [0xE0u8, 0xE1, 0xEC, 0xED, 0xEE, 0xEF, 0xF0, 0xF1, 0xF3, 0xF4, 0xF5, 0xC0, 0xC1, 0xC2, 0xDF, 0x80, 0xBF, 0xF8, 0xFF] {
            for b2 in [0x00u8, 0x7F, 0x80, 0x8F, 0x90, 0x9F, 0xA0, 0xBF, 0xC0, 0xFF] {
                for b3 in [0x7Fu8, 0x80, 0xBF, 0xC0] {
                    seqs.push(vec![b1, b2, b3]);
                    for b4 in [0x7Fu8, 0x80, 0xBF, 0xC0] {
                        seqs.push(vec![b1, b2, b3, b4]);
                    }
                }
            }
        }
        for tail in [&b""[..], b"A", b"\xC3\xA9", b"\xEF\xBB\xBF", b"\x80"] {
            let mut s = vec![0xEF, 0xBB, 0xBF];
            s.extend_from_slice(tail);
            seqs.push(s);
            let mut s = b"A".to_vec();
            s.extend_from_slice(&[0xEF, 0xBB, 0xBF]);
            s.extend_from_slice(tail);
            seqs.push(s);
        }
        for _ in 0..(if thorough { 20000 } else { 2000 }) {
            let n = rng.range(1, 6);
            let mut s = Vec::new();
            for _ in 0..n {
                if rng.chance(1, 2) {
                    let c = rand_scalar(&mut rng);
                    let mut buf = [0u8; 4];
                    s.extend_from_slice(char::from_u32(c).unwrap().encode_utf8(&mut buf).as_bytes());
                } else {
                    s.push(rng.byte());
                }
            }
            seqs.push(s);
        }
        for ch in seqs.chunks(200) {
            let r: Vec<Value> = ch
                .iter()
                .map(|bs| {
                    let mut s = vec![241, 27];
                    for b in bs {
                        s.extend(ascii_cw(*b));
                    }
                    json!({"bytes": bytes_json(bs), "res": decode_str_of(s)})
                })
                .collect();
            out.put(&json!({"id": next(), "fam": "str", "stratum": "utf8seqs", "events": [{"ev": "Utf8Seqs", "res": r}]}));
        }
        // valid UTF-8 of non-ASCII scalars under the 8-bit / 7-bit character sets
        for _ in 0..(if thorough { 20000 } else { 300 }) {
            let mut bs: Vec<u8> = Vec::new();
            for _ in 0..rng.range(1, 4) {
                let c = if rng.chance(1, 3) { 0x20 + rng.below(0x5F) as u32 } else { rand_scalar(&mut rng) };
                let mut buf = [0u8; 4];
                bs.extend_from_slice(char::from_u32(c).unwrap().encode_utf8(&mut buf).as_bytes());
            }
            let eci = *rng.pick(&[27u8, 27, 3, 11, 13, 0]);
            let mut s = vec![241, eci + 1];
            for b in &bs {
                s.extend(ascii_cw(*b));
            }
            out.put(&json!({"id": next(), "fam": "str", "stratum": "eciBodyUtf8", "events": [{"ev": "EciBody", "eci": eci, "bytes": bytes_json(&bs), "res": decode_str_of(s)}]}));
        }
        // streams that switch the ECI in the middle (and after a macro codeword): list of (eci, bytes) chunks
        for _ in 0..(if thorough { 20000 } else { 400 }) {
            let mac = match rng.below(5) { 0 => 236u8, 1 => 237, _ => 0 };
            let mut stream: Vec<u8> = if mac != 0 { vec![mac] } else { vec![] };
            let mut chunks: Vec<Value> = Vec::new();
            let nch = rng.range(1, 4);
            for k in 0..nch {
                let eci: i32 = if k == 0 && rng.chance(1, 2) { -1 } else { *rng.pick(&[0i32, 3, 11, 13, 26, 27, 26, 3, 4, 25, 899]) };
                let mut bs: Vec<u8> = Vec::new();
                for _ in 0..rng.range(0, 4) {
                    match rng.below(4) {
                        0 => bs.push(0x20 + rng.below(0x5F) as u8),
                        1 => bs.push(0xA0 + rng.below(0x60) as u8),
                        2 => {
                            let c = rand_scalar(&mut rng);
                            let mut buf = [0u8; 4];
                            bs.extend_from_slice(char::from_u32(c).unwrap().encode_utf8(&mut buf).as_bytes());
                        }
                        _ => bs.push(rng.byte()),
                    }
                }
                if eci >= 0 {
                    stream.push(241);
                    if eci <= 126 { stream.push(eci as u8 + 1); } else { stream.push(((eci - 127) / 254 + 128) as u8); stream.push(((eci - 127) % 254 + 1) as u8); }
                }
                for b in &bs {
                    stream.extend(ascii_cw(*b));
                }
                chunks.push(json!({"eci": eci, "bytes": bytes_json(&bs)}));
            }
            out.put(&json!({"id": next(), "fam": "str", "stratum": "eciSpans", "events": [{"ev": "EciSpans", "macro": mac, "chunks": chunks, "res": decode_str_of(stream)}]}));
        }
        // every byte value at the block boundaries of an otherwise printable body (word-at-a-time fast paths see whole blocks)
        for eci in [0u8, 3, 11, 13, 26, 27] {
            for (len, pos) in [(8usize, 7usize), (16, 15), (8, 0), (16, 8), (17, 16), (4, 3), (32, 31)] {
                for b in 0..=255u8 {
                    let edge = b < 0x21 || (0x7E..=0xA1).contains(&b) || b >= 0xFC || [0xD0u8, 0xDB, 0xDD, 0xDE, 0xF0, 0xFD].contains(&b);
                    if !thorough && pos != len - 1 && !edge {
                        continue;
                    }
                    if !thorough && len != 8 && len != 16 && !edge {
                        continue;
                    }
                    let mut bs: Vec<u8> = (0..len).map(|i| b'A' + (i % 26) as u8).collect();
                    bs[pos] = b;
                    let mut s = vec![241, eci + 1];
                    for x in &bs {
                        s.extend(ascii_cw(*x));
                    }
                    out.put(&json!({"id": next(), "fam": "str", "stratum": "charsetBlock", "events": [{"ev": "EciBody", "eci": eci, "bytes": bytes_json(&bs), "res": decode_str_of(s)}]}));
                }
            }
        }
        // ECI 27 (US-ASCII) and multi-ECI streams
        for _ in 0..(if thorough { 20000 } else { 300 }) {
            let n = rng.range(0, 8);
            let bs: Vec<u8> = (0..n).map(|_| if rng.chance(1, 5) { rng.byte() } else { rng.below(128) as u8 }).collect();
            let eci = *rng.pick(&[27u8, 3, 11, 13]);
            let mut s = vec![241, eci + 1];
            for b in &bs {
                s.extend(ascii_cw(*b));
            }
            out.put(&json!({"id": next(), "fam": "str", "stratum": "eciBody", "events": [{"ev": "EciBody", "eci": eci, "bytes": bytes_json(&bs), "res": decode_str_of(s)}]}));
        }
        return;
    }
}

// ---------------------------------------------------------------------------------------------
// "dec" family (C05): arbitrary data codeword streams -> decode_data / decode_str, outcome kinds in batches
fn kind_code(stream: &[u8], panics: &mut Vec<Value>) -> (u8, u8) {
    let s1 = stream.to_vec();
    let a = match guarded(move || data::decode_data(&s1)) {
        Outcome::Val(Ok(_)) => 0,
        Outcome::Val(Err(_)) => 1,
        Outcome::Panic(l, m) => {
            if panics.len() < 40 {
                panics.push(json!({"call": "decode_data", "stream": bytes_json(&stream[..stream.len().min(40)]), "loc": l, "msg": m.chars().take(80).collect::<String>()}));
            }
            2
        }
    };
    let s2 = stream.to_vec();
    let b = match guarded(move || data::decode_str(&s2)) {
        Outcome::Val(Ok(_)) => 0,
        Outcome::Val(Err(_)) => 1,
        Outcome::Panic(l, m) => {
            if panics.len() < 40 {
                panics.push(json!({"call": "decode_str", "stream": bytes_json(&stream[..stream.len().min(40)]), "loc": l, "msg": m.chars().take(80).collect::<String>()}));
            }
            2
        }
    };
    (a, b)
}

pub fn run_dec(tier: &str, seed: u64, profile: &str, out: &mut Out) {
    let thorough = tier == "thorough";
    let mut rng = Rng::new(seed, 0xDEC);
    let mut idx = 0usize;
    let mut emit = |out: &mut Out, stratum: &str, prefix: Vec<u8>, streams: Vec<Vec<u8>>, explicit: bool| {
        idx += 1;
        set_case(idx, "decode");
        let mut panics = Vec::new();
        let mut dd = Vec::with_capacity(streams.len());
        let mut ds = Vec::with_capacity(streams.len());
        for s in &streams {
            let (a, b) = kind_code(s, &mut panics);
            dd.push(a);
            ds.push(b);
        }
        let mut ev = json!({"ev": "DecodeBatch", "prefix": bytes_json(&prefix), "n": streams.len(), "data": dd, "str": ds, "panics": panics});
        if explicit {
            ev["streams"] = Value::Array(streams.iter().map(|s| bytes_json(&s[..s.len().min(64)])).collect());
        }
        out.put(&json!({"id": idx, "fam": "dec", "stratum": stratum, "profile": profile, "events": [ev]}));
    };
    // all streams of length <= 2
    emit(out, "len0", vec![], vec![vec![]], false);
    emit(out, "len1", vec![], (0..=255u8).map(|a| vec![a]).collect(), false);
    for a in 0..=255u8 {
        emit(out, "len2", vec![a], (0..=255u8).map(|b| vec![a, b]).collect(), false);
    }
    // <h, x, y> for the special codewords h
    let heads: Vec<u8> = vec![230, 231, 232, 233, 234, 235, 236, 237, 238, 239, 240, 241, 129, 254];
    for h in heads {
        for x in 0..=255u8 {
            if !thorough && !(x < 4 || x > 250 || x % 16 == 5 || (128..=132).contains(&x) || (190..=193).contains(&x) || (205..=209).contains(&x) || (229..=242).contains(&x)) {
                continue;
            }
            emit(out, "hxy", vec![h, x], (0..=255u8).map(|y| vec![h, x, y]).collect(), false);
        }
    }
    // latch followed by four codewords at the value boundaries
    let edge: [u8; 10] = [0, 1, 2, 127, 128, 129, 250, 253, 254, 255];
    for h in [230u8, 239, 238, 240, 231, 241] {
        let mut streams = Vec::new();
        for a in edge {
            for b in edge {
                for c in edge {
                    for d in [0u8, 1, 129, 254, 255] {
                        streams.push(vec![h, a, b, c, d]);
                    }
                }
            }
        }
        emit(out, "edges", vec![h], streams, true);
    }
    // three-codeword ECI designators with every third codeword
    for c1 in [192u8, 200, 207] {
        for c2 in [0u8, 1, 2, 128, 254, 255] {
            emit(out, "eci3", vec![241, c1, c2], (0..=255u8).map(|c3| vec![241, c1, c2, c3, 66]).collect(), false);
        }
    }
    for c1 in [128u8, 160, 191] {
        emit(out, "eci2", vec![241, c1], (0..=255u8).map(|c2| vec![241, c1, c2, 66]).collect(), false);
    }
    // charset bodies: every byte under ECI 3, 11, 13, 26, 27 (ASCII + upper shift), two bytes
    for eci in [3u8, 11, 13, 26, 27, 0, 25, 200] {
        let mut streams = Vec::new();
        for b in 0..=255u8 {
            let mut s = vec![241, eci + 1];
            s.extend(ascii_cw(b));
            streams.push(s.clone());
            s.extend(ascii_cw(b ^ 0x80));
            streams.push(s);
        }
        emit(out, "charsetBody", vec![241, eci + 1], streams, true);
    }
    // Base256 length fields: declared length L (one- and two-codeword forms, randomised at the right position) against
    // every payload length L-3..L+3, after 0, 1 or 28 ASCII codewords; also the "to the end of the symbol" length 0
    for pre in [0usize, 1, 28] {
        let mut streams = Vec::new();
        for l in [0usize, 1, 2, 5, 248, 249, 250, 251, 252, 499, 500, 501, 749, 750, 1000, 1499, 1500, 1555, 1556] {
            for two_cw in [false, true] {
                if (!two_cw && l > 249) || (two_cw && l > 0 && l < 250 && l != 5) {
                    continue;
                }
                for delta in -3i64..=3 {
                    let payload = l as i64 + delta;
                    if payload < 0 {
                        continue;
                    }
                    let mut s: Vec<u8> = (0..pre).map(|i| 66 + (i % 20) as u8).collect();
                    s.push(231);
                    let field: Vec<u8> = if two_cw { vec![(l / 250 + 249) as u8, (l % 250) as u8] } else { vec![l as u8] };
                    for v in field.into_iter().chain((0..payload).map(|i| (i * 7 + 1) as u8)) {
                        let pos = s.len() + 1;
                        s.push(rnd255(v, pos));
                    }
                    streams.push(s);
                }
            }
        }
        emit(out, "b256len", vec![pre as u8], streams, false);
    }
    // conformant streams (the crate's own encoder, every mode subset that forces one scheme) cut at every position, and with
    // one codeword replaced by a boundary value
    {
        let inputs: Vec<Vec<u8>> = vec![
            b"ABCDEFGHIJKLMNOPQ".to_vec(),
            b"abcdefghij klmnopq".to_vec(),
            b"AB*>\rCD0123456789XYZ".to_vec(),
            b".:-/.:-/ABCD1234@@".to_vec(),
            (0..40u8).map(|i| 0x80 + i * 3).collect(),
            (0..300usize).map(|i| (0xA0 + (i * 5) % 90) as u8).collect(),
            b"A1b2\x80\x81 {|}~\x7f\x00\x1f!".to_vec(),
            b"[)>\x1e05\x1dHELLO123\x1e\x04".to_vec(),
            class_string(&mut rng, Class::Any, 60),
            random_runs(&mut rng, 90),
        ];
        for inp in &inputs {
            for mask in [63u8, 1 | 2, 1 | 4, 1 | 8, 1 | 16, 1 | 32, 2 | 4, 32] {
                let i2 = inp.clone();
                let enc = match guarded(move || data::encode_data(&i2, &SymbolList::default(), None, modes_from_mask(mask), true)) {
                    Outcome::Val(Ok((cw, _))) => cw,
                    _ => continue,
                };
                let cut: Vec<Vec<u8>> = (0..=enc.len()).map(|k| enc[..k].to_vec()).collect();
                emit(out, "truncatedValid", vec![mask], cut, false);
                let mut mutated = Vec::new();
                for k in 0..enc.len().min(120) {
                    for v in [0u8, 1, 129, 130, 229, 230, 231, 235, 238, 239, 240, 241, 254, 255] {
                        let mut s = enc.clone();
                        s[k] = v;
                        mutated.push(s);
                    }
                }
                emit(out, "mutatedValid", vec![mask], mutated, false);
            }
        }
    }
    // random streams
    let nb = if thorough { 400 } else { 60 };
    for _ in 0..nb {
        let mut streams = Vec::new();
        for _ in 0..250 {
            let n = rng.log_range(1, 1558);
            let kind = rng.below(4);
            let s: Vec<u8> = (0..n)
                .map(|_| match kind {
                    0 => rng.byte(),
                    1 => *rng.pick(&[230u8, 231, 235, 238, 239, 240, 241, 254, 129, 0, 1, 255, 66, 130]),
                    _ => if rng.chance(1, 6) { *rng.pick(&[230u8, 231, 235, 238, 239, 240, 241, 254, 129, 236, 232]) } else { rng.byte() },
                })
                .collect();
            streams.push(s);
        }
        emit(out, "random", vec![], streams, true);
    }
}
