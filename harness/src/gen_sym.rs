//! "sym" family (C12): catalogue attributes observed through the public API and SymbolList builder traces.
use crate::catalogue::*;
use crate::strings::{MACRO05_HEAD, MACRO_TRAIL};
use crate::util::*;
use datamatrix::{DataMatrix, DataMatrixBuilder, EncodationType, SymbolList, SymbolSize};
use serde_json::{json, Value};
use std::ops::Bound;

#[derive(Clone, Debug)]
pub enum Op {
    Default,
    Extended,
    All,
    Whitelist(Vec<SymbolSize>),
    FromSize(SymbolSize),
    Square,
    Rect,
    Width(Bound<usize>, Bound<usize>),
    Height(Bound<usize>, Bound<usize>),
    Extend(Vec<SymbolSize>),
    /// encode n ASCII-only characters with the current list
    Probe(usize),
    /// encode n digits (ASCII only: ceil(n/2) codewords) / 3m X12 characters (X12 only: 2m+1 codewords, +1 unlatch unless it fills the symbol)
    ProbeDigits(usize),
    ProbeX12(usize),
    /// macro 05 envelope around digits; the argument is subtracted from twice the capacity of the list's largest symbol
    ProbeMacro(usize),
    Contains(SymbolSize),
}

fn bound_json(b: &Bound<usize>) -> Value {
    match b {
        Bound::Unbounded => json!(["U", 0]),
        Bound::Included(v) => json!(["I", v]),
        Bound::Excluded(v) => json!(["E", v]),
    }
}

fn rand_bound(rng: &mut Rng, dims: &[usize]) -> Bound<usize> {
    let v = match rng.below(4) {
        0 => rng.below(152),
        _ => {
            let d = *rng.pick(dims);
            (d + rng.below(3)).saturating_sub(1)
        }
    };
    match rng.below(4) {
        0 => Bound::Unbounded,
        1 => Bound::Excluded(v),
        _ => Bound::Included(v),
    }
}

pub fn attr_case(idx: usize) -> Value {
    set_case(idx, "attributes");
    let mut events = Vec::new();
    for s in all_sizes() {
        let r = guarded(move || {
            let d = DataMatrix::encode(b"OK", s)?;
            let bm = d.bitmap();
            Ok::<_, datamatrix::data::DataEncodingError>((bm.height(), bm.width(), d.data_codewords().len(), d.codewords().len(), s.is_square(), s.is_dmre(), d.size))
        });
        let res = match r {
            Outcome::Val(Ok((h, w, nd, nt, sq, dm, got))) => json!({"kind": "Ok", "rows": h, "cols": w, "data": nd, "total": nt, "square": sq, "dmre": dm, "got": size_name(got)}),
            Outcome::Val(Err(e)) => json!({"kind": "Err", "err": format!("{:?}", e)}),
            Outcome::Panic(l, m) => panic_json(&l, &m),
        };
        events.push(json!({"ev": "Attr", "size": size_name(s), "res": res}));
    }
    json!({"id": idx, "fam": "sym", "stratum": "attributes", "events": events})
}

pub fn op_cases(tier: &str, seed: u64) -> Vec<Vec<Op>> {
    let thorough = tier == "thorough";
    let mut rng = Rng::new(seed, 0x512);
    let sizes = all_sizes();
    let mut dims: Vec<usize> = CATALOGUE.iter().flat_map(|s| [s.rows, s.cols]).collect();
    dims.sort();
    dims.dedup();
    let mut out: Vec<Vec<Op>> = Vec::new();
    let probes = |rng: &mut Rng| -> Vec<Op> {
        let mut v = Vec::new();
        for _ in 0..3 {
            let c = CATALOGUE[rng.below(48)].data;
            v.push(Op::Probe((c + rng.below(3)).saturating_sub(1)));
        }
        v.push(Op::Probe(rng.below(1600)));
        let c = CATALOGUE[rng.below(48)].data;
        v.push(Op::ProbeDigits((2 * c + rng.below(3)).saturating_sub(1)));
        let c = CATALOGUE[rng.below(48)].data;
        v.push(Op::ProbeX12((c + rng.below(3)).saturating_sub(1) / 2));
        v.push(Op::ProbeMacro(rng.below(12)));
        v
    };
    // single filters on both base lists, systematic bounds
    for base in [Op::Default, Op::Extended, Op::All] {
        out.push(vec![base.clone(), Op::Square, Op::Probe(10), Op::Probe(1558), Op::Probe(1559)]);
        out.push(vec![base.clone(), Op::Rect, Op::Probe(10), Op::Probe(49), Op::Probe(50), Op::Probe(118), Op::Probe(119)]);
        out.push(vec![base.clone(), Op::Square, Op::Rect, Op::Probe(1)]);
        let vals: Vec<usize> = if thorough { (0..=151).collect() } else { dims.iter().flat_map(|d| [d.saturating_sub(1), *d, d + 1]).collect() };
        for v in vals {
            for (lo, hi) in [
                (Bound::Unbounded, Bound::Included(v)),
                (Bound::Unbounded, Bound::Excluded(v)),
                (Bound::Included(v), Bound::Unbounded),
                (Bound::Excluded(v), Bound::Unbounded),
                (Bound::Included(v), Bound::Included(v)),
                (Bound::Excluded(v), Bound::Included(v + 20)),
                (Bound::Included(v), Bound::Excluded(v + 30)),
            ] {
                out.push(vec![base.clone(), Op::Width(lo, hi), Op::Probe(rng.below(80))]);
                out.push(vec![base.clone(), Op::Height(lo, hi), Op::Probe(rng.below(80))]);
            }
        }
    }
    // compositions of up to 4 filters
    let n = if thorough { 40000 } else { 800 };
    for _ in 0..n {
        let mut ops = vec![match rng.below(4) {
            0 => Op::Default,
            1 => Op::Extended,
            2 => Op::All,
            _ => {
                let k = rng.range(0, 12);
                Op::Whitelist((0..k).map(|_| sizes[rng.below(48)]).collect())
            }
        }];
        for _ in 0..rng.range(1, 4) {
            ops.push(match rng.below(7) {
                0 => Op::Square,
                1 => Op::Rect,
                2 | 3 => Op::Width(rand_bound(&mut rng, &dims), rand_bound(&mut rng, &dims)),
                4 | 5 => Op::Height(rand_bound(&mut rng, &dims), rand_bound(&mut rng, &dims)),
                _ => Op::Extend((0..rng.range(1, 3)).map(|_| sizes[rng.below(48)]).collect()),
            });
            if rng.chance(1, 3) {
                ops.push(Op::Contains(sizes[rng.below(48)]));
            }
        }
        ops.extend(probes(&mut rng));
        out.push(ops);
    }
    // whitelists (any order, duplicates), From<SymbolSize>, extend after construction
    let n = if thorough { 12000 } else { 300 };
    for _ in 0..n {
        let k = rng.range(0, 10);
        let mut ops = vec![if k == 1 && rng.chance(1, 2) { Op::FromSize(sizes[rng.below(48)]) } else { Op::Whitelist((0..k).map(|_| sizes[rng.below(48)]).collect()) }];
        if rng.chance(1, 2) {
            ops.push(Op::Extend((0..rng.range(1, 4)).map(|_| sizes[rng.below(48)]).collect()));
        }
        ops.extend(probes(&mut rng));
        ops.push(Op::Contains(sizes[rng.below(48)]));
        out.push(ops);
    }
    out
}

pub fn op_case(idx: usize, ops: &[Op]) -> Value {
    set_case(idx, "symbol list ops");
    let ops2 = ops.to_vec();
    let r = guarded(move || {
        let mut list = SymbolList::default();
        let mut events = Vec::new();
        for op in &ops2 {
            let mut ev = match op {
                Op::Default => {
                    list = SymbolList::default();
                    json!({"ev": "Default"})
                }
                Op::Extended => {
                    list = SymbolList::with_extended_rectangles();
                    json!({"ev": "Extended"})
                }
                Op::All => {
                    list = SymbolList::all();
                    json!({"ev": "Extended"})
                }
                Op::Whitelist(v) => {
                    list = SymbolList::with_whitelist(v.iter().copied());
                    json!({"ev": "Whitelist", "names": v.iter().map(|s| size_name(*s)).collect::<Vec<_>>()})
                }
                Op::FromSize(s) => {
                    list = (*s).into();
                    json!({"ev": "Whitelist", "names": [size_name(*s)]})
                }
                Op::Square => {
                    list = list.clone().enforce_square();
                    json!({"ev": "EnforceSquare"})
                }
                Op::Rect => {
                    list = list.clone().enforce_rectangular();
                    json!({"ev": "EnforceRect"})
                }
                Op::Width(lo, hi) => {
                    list = list.clone().enforce_width_in((*lo, *hi));
                    json!({"ev": "EnforceWidth", "lo": bound_json(lo), "hi": bound_json(hi)})
                }
                Op::Height(lo, hi) => {
                    list = list.clone().enforce_height_in((*lo, *hi));
                    json!({"ev": "EnforceHeight", "lo": bound_json(lo), "hi": bound_json(hi)})
                }
                Op::Extend(v) => {
                    list.extend(v.iter().copied());
                    json!({"ev": "Extend", "names": v.iter().map(|s| size_name(*s)).collect::<Vec<_>>()})
                }
                Op::Contains(s) => json!({"ev": "Contains", "name": size_name(*s), "res": list.contains(s)}),
                Op::ProbeMacro(delta) => {
                    let maxcap = list.iter().map(capacity_of).max().unwrap_or(0);
                    let n = (2 * maxcap).saturating_sub(*delta);
                    let mut data = MACRO05_HEAD.to_vec();
                    data.extend(std::iter::repeat(b'7').take(n));
                    data.extend_from_slice(MACRO_TRAIL);
                    let r = DataMatrixBuilder::new().with_encodation_types(EncodationType::Ascii).with_macros(true).with_symbol_list(list.clone()).encode(&data);
                    let res = match r {
                        Ok(d) => json!({"kind": "Ok", "size": size_name(d.size)}),
                        Err(e) => json!({"kind": "Err", "err": format!("{:?}", e)}),
                    };
                    json!({"ev": "ProbeMacro", "n": n, "res": res})
                }
                Op::ProbeDigits(n) | Op::ProbeX12(n) => {
                    let (data, modes, name) = match op {
                        Op::ProbeDigits(_) => (vec![b'7'; *n], EncodationType::Ascii, "ProbeDigits"),
                        _ => (b"A*9".iter().cycle().take(3 * *n).copied().collect::<Vec<u8>>(), EncodationType::X12, "ProbeX12"),
                    };
                    let r = DataMatrixBuilder::new().with_encodation_types(modes).with_macros(false).with_symbol_list(list.clone()).encode(&data);
                    let res = match r {
                        Ok(d) => json!({"kind": "Ok", "size": size_name(d.size)}),
                        Err(e) => json!({"kind": "Err", "err": format!("{:?}", e)}),
                    };
                    json!({"ev": name, "n": n, "res": res})
                }
                Op::Probe(n) => {
                    let data = vec![b'x'; *n];
                    let r = DataMatrixBuilder::new().with_symbol_list(list.clone()).with_encodation_types(EncodationType::Ascii).with_macros(false).encode(&data);
                    let res = match r {
                        Ok(d) => json!({"kind": "Ok", "size": size_name(d.size)}),
                        Err(e) => json!({"kind": "Err", "err": format!("{:?}", e)}),
                    };
                    json!({"ev": "Probe", "n": n, "res": res})
                }
            };
            ev["list"] = list_json(&list);
            ev["empty"] = json!(list.is_empty());
            events.push(ev);
        }
        events
    });
    match r {
        Outcome::Val(events) => json!({"id": idx, "fam": "sym", "stratum": "ops", "events": events}),
        Outcome::Panic(l, m) => json!({"id": idx, "fam": "sym", "stratum": "ops", "events": [{"ev": "Panic", "res": panic_json(&l, &m)}]}),
    }
}
