//! dmverif: trace generators / replayers for the TLA+ based verification of datamatrix-rs.
mod catalogue;
mod gen_enc;
mod gen_geom;
mod gen_path;
mod gen_plan;
mod gen_rs;
mod gen_str;
mod gen_sym;
mod replay;
mod strings;
mod util;

use util::*;

fn arg(args: &[String], key: &str, default: &str) -> String {
    args.iter()
        .position(|a| a == key)
        .and_then(|i| args.get(i + 1).cloned())
        .unwrap_or_else(|| default.to_string())
}

fn main() {
    let args: Vec<String> = std::env::args().collect();
    if args.len() < 3 {
        eprintln!("usage: dmverif gen <family> --tier quick|thorough --seed N --focus ID --out FILE [--start K]");
        std::process::exit(2);
    }
    install_panic_hook();
    start_watchdog();
    let profile = if cfg!(debug_assertions) { "checked" } else { "release" };
    let tier = arg(&args, "--tier", "quick");
    let seed: u64 = arg(&args, "--seed", "1").parse().unwrap_or(1);
    let focus = arg(&args, "--focus", "");
    let out_path = arg(&args, "--out", "trace.ndjson");
    let start: usize = arg(&args, "--start", "0").parse().unwrap_or(0);
    *HANG_OUT.lock().unwrap() = Some(format!("{}.hang", out_path));
    match (args[1].as_str(), args[2].as_str()) {
        ("gen", "enc") => {
            let cases = gen_enc::cases(&tier, seed, &focus);
            let mut out = Out::create(&out_path, start > 0);
            for (i, c) in cases.iter().enumerate().skip(start) {
                out.put(&gen_enc::run_case(i + 1, c, profile));
                if i % 256 == 0 {
                    out.flush();
                }
            }
            // C11: many more inputs are executed than logged; only panicking calls are written out
            if focus == "C11" {
                let n = if tier == "thorough" { 3_000_000 } else { 250_000 };
                let done = gen_enc::storm(n, seed, profile, 1_000_000, &mut out);
                out.put(&serde_json::json!({"id": 0, "fam": "enc", "summary": true, "executed_unlogged": done}));
            }
            out.flush();
            eprintln!("enc: {} cases", cases.len());
        }
        ("gen", "place") => {
            let mut out = Out::create(&out_path, start > 0);
            for (i, c) in gen_geom::place_cases().iter().enumerate().skip(start) {
                out.put(&gen_geom::place_case(i + 1, c));
            }
            out.flush();
        }
        ("gen", "geom") => {
            let mut out = Out::create(&out_path, start > 0);
            for (i, c) in gen_geom::geom_cases(&tier).iter().enumerate().skip(start) {
                for r in gen_geom::geom_case_chunks(i + 1, c, &tier, seed) {
                    out.put(&r);
                }
            }
            out.flush();
        }
        ("gen", "shapes") => {
            let mut out = Out::create(&out_path, start > 0);
            for (i, c) in gen_geom::shape_cases(&tier, seed).iter().enumerate().skip(start) {
                out.put(&gen_geom::shape_case(i + 1, c, seed));
            }
            out.flush();
        }
        ("replay", "c04") => {
            replay::c04(&arg(&args, "--in", ""), &out_path);
        }
        ("gen", "sym") => {
            let mut out = Out::create(&out_path, start > 0);
            if start == 0 {
                out.put(&gen_sym::attr_case(1));
            }
            for (i, c) in gen_sym::op_cases(&tier, seed).iter().enumerate().skip(start.saturating_sub(1)) {
                out.put(&gen_sym::op_case(i + 2, c));
            }
            out.flush();
        }
        ("gen", "plan") => {
            let cases = gen_plan::cases(&tier, seed, &focus);
            let mut out = Out::create(&out_path, start > 0);
            for (i, c) in cases.iter().enumerate().skip(start) {
                for r in gen_plan::run_case(i + 1, c, &focus) {
                    out.put(&r);
                }
            }
            out.flush();
            eprintln!("plan: {} cases", cases.len());
        }
        ("gen", "str") => {
            let mut out = Out::create(&out_path, false);
            gen_str::run(&tier, seed, &focus, &mut out);
            out.flush();
        }
        ("gen", "dec") => {
            let mut out = Out::create(&out_path, false);
            gen_str::run_dec(&tier, seed, profile, &mut out);
            out.flush();
        }
        ("gen", "path") => {
            let cases = gen_path::cases(&tier, seed);
            let mut out = Out::create(&out_path, start > 0);
            for (i, c) in cases.iter().enumerate().skip(start) {
                out.put(&gen_path::run_case(i + 1, c));
            }
            out.flush();
            eprintln!("path: {} cases", cases.len());
        }
        ("gen", "rs") => {
            let cases = gen_rs::cases(&tier, seed, &focus);
            let mut out = Out::create(&out_path, start > 0);
            for (i, c) in cases.iter().enumerate().skip(start) {
                out.put(&gen_rs::run_case(i + 1, c, profile));
            }
            let storm = gen_rs::STORM_CALLS.load(std::sync::atomic::Ordering::Relaxed);
            if storm > 0 {
                // words tried by the storm on which the decoder reported an error (not logged: C09 concerns reported successes)
                out.put(&serde_json::json!({"id": 0, "fam": "rs", "summary": true, "executed_unlogged": storm}));
            }
            out.flush();
            eprintln!("rs: {} cases", cases.len());
        }
        _ => {
            eprintln!("unknown command");
            std::process::exit(2);
        }
    }
}
