//! Specification -> implementation: replay TLC-generated behaviours into the crate.
use crate::util::*;
use datamatrix::data;
use serde_json::{json, Value};
use std::io::BufRead;

fn bytes_of(v: &Value) -> Vec<u8> {
    v.as_array().map(|a| a.iter().map(|x| x.as_u64().unwrap_or(0) as u8).collect()).unwrap_or_default()
}

/// C04: every REPLAY line is [expect, stream]; decode_data(stream) must return expect.
/// If expect is printable Latin-1, decode_str must return the same characters.
pub fn c04(input: &str, output: &str) {
    let f = std::fs::File::open(input).expect("open replay input");
    let mut out = Out::create(output, false);
    let (mut n, mut bad, mut nstr) = (0usize, 0usize, 0usize);
    let mut sample: Vec<Value> = Vec::new();
    for line in std::io::BufReader::new(f).lines() {
        let line = line.unwrap();
        if !line.starts_with("\"{") {
            continue;
        }
        let inner: String = serde_json::from_str(&line).expect("json string");
        let v: Value = serde_json::from_str(&inner).expect("json");
        let expect = bytes_of(&v["expect"]);
        let stream = bytes_of(&v["stream"]);
        n += 1;
        set_case(n, "decode_data");
        let s2 = stream.clone();
        let got = match guarded(move || data::decode_data(&s2)) {
            Outcome::Val(Ok(b)) => json!({"kind": "Ok", "bytes": bytes_json(&b)}),
            Outcome::Val(Err(e)) => json!({"kind": "Err", "err": format!("{:?}", e)}),
            Outcome::Panic(l, m) => panic_json(&l, &m),
        };
        let mut ok = got["kind"] == "Ok" && bytes_of(&got["bytes"]) == expect;
        let mut got_str = Value::Null;
        if expect.iter().all(|b| (0x20..=0x7E).contains(b) || *b >= 0xA0) {
            nstr += 1;
            let s3 = stream.clone();
            let want: String = expect.iter().map(|b| *b as char).collect();
            match guarded(move || data::decode_str(&s3)) {
                Outcome::Val(Ok(s)) => {
                    if s != want {
                        ok = false;
                        got_str = json!({"kind": "Ok", "str": s});
                    }
                }
                Outcome::Val(Err(e)) => {
                    ok = false;
                    got_str = json!({"kind": "Err", "err": format!("{:?}", e)});
                }
                Outcome::Panic(l, m) => {
                    ok = false;
                    got_str = panic_json(&l, &m);
                }
            }
        }
        if !ok {
            bad += 1;
            if bad <= 200 {
                out.put(&json!({"mismatch": true, "n": n, "expect": bytes_json(&expect), "stream": bytes_json(&stream), "got": got, "got_str": got_str}));
            }
        } else if sample.len() < 3 && stream.len() > 4 {
            sample.push(json!({"expect": bytes_json(&expect), "stream": bytes_json(&stream)}));
        }
    }
    out.put(&json!({"summary": true, "replayed": n, "mismatches": bad, "decode_str_checked": nstr, "samples": sample}));
    out.flush();
}
