//! Input string families shared by the generators.
use crate::util::Rng;

/// One or two representatives of every character class the mode encoders distinguish.
pub const SIGMA: [u8; 27] = [
    b'A', b'Z', b'a', b'z', b'0', b'9', b' ', b'*', b'>', 13, b'!', b'/', b':', b'@', b'[', b'^', b'_',
    b'`', b'{', 127, 0, 31, 0x80, 0xA0, 0xB0, 0xE1, 0xFF,
];
/// Smaller alphabet (one representative per class) for deeper exhaustive enumeration.
pub const SIGMA12: [u8; 12] = [b'A', b'a', b'0', b' ', b'*', b'!', b'^', b'_', 0, 0x80, 0xE1, 13];

pub const MACRO05_HEAD: &[u8] = b"[)>\x1E05\x1D";
pub const MACRO06_HEAD: &[u8] = b"[)>\x1E06\x1D";
pub const MACRO_TRAIL: &[u8] = b"\x1E\x04";

/// all strings over `alpha` with length <= l
pub fn all_strings(alpha: &[u8], l: usize) -> Vec<Vec<u8>> {
    let mut out = vec![vec![]];
    let mut layer: Vec<Vec<u8>> = vec![vec![]];
    for _ in 0..l {
        let mut next = Vec::with_capacity(layer.len() * alpha.len());
        for s in &layer {
            for a in alpha {
                let mut t = s.clone();
                t.push(*a);
                next.push(t);
            }
        }
        out.extend(next.iter().cloned());
        layer = next;
    }
    out
}

#[derive(Clone, Copy, Debug, PartialEq)]
pub enum Class {
    Upper,
    Lower,
    Digits,
    X12,
    EdifactPunct,
    High,
    Ctrl,
    Mixed,
    UpperDigit,
    LowerSpace,
    Shift2,
    Any,
}
pub const CLASSES: [Class; 12] = [
    Class::Upper,
    Class::Lower,
    Class::Digits,
    Class::X12,
    Class::EdifactPunct,
    Class::High,
    Class::Ctrl,
    Class::Mixed,
    Class::UpperDigit,
    Class::LowerSpace,
    Class::Shift2,
    Class::Any,
];

pub fn class_char(rng: &mut Rng, c: Class) -> u8 {
    match c {
        Class::Upper => b'A' + rng.below(26) as u8,
        Class::Lower => b'a' + rng.below(26) as u8,
        Class::Digits => b'0' + rng.below(10) as u8,
        Class::X12 => *rng.pick(b"ABCXYZ0189 *>\r"),
        Class::EdifactPunct => 32 + rng.below(63) as u8, // 32..=94
        Class::High => 128 + rng.below(128) as u8,
        Class::Ctrl => rng.below(32) as u8,
        Class::Mixed => *rng.pick(&SIGMA),
        Class::UpperDigit => {
            if rng.chance(1, 2) {
                b'A' + rng.below(26) as u8
            } else {
                b'0' + rng.below(10) as u8
            }
        }
        Class::LowerSpace => {
            if rng.chance(1, 6) {
                b' '
            } else {
                b'a' + rng.below(26) as u8
            }
        }
        Class::Shift2 => *rng.pick(b"!\"#$%&'()*+,-./:;<=>?@[\\]^_"),
        Class::Any => rng.byte(),
    }
}

pub fn class_string(rng: &mut Rng, c: Class, n: usize) -> Vec<u8> {
    (0..n).map(|_| class_char(rng, c)).collect()
}

/// tails that exercise the end-of-data rules
pub const TAILS: [&[u8]; 16] = [
    b"", b"A", b"a", b"1", b"12", b"123", b"1234", b"\x80", b"!", b"A1", b"AB", b"ABC", b"a1b", b" ", b"\xE1\xE1",
    b"A12",
];

/// random string: a few runs of random classes, total length n
pub fn random_runs(rng: &mut Rng, n: usize) -> Vec<u8> {
    let mut out = Vec::with_capacity(n);
    while out.len() < n {
        let c = *rng.pick(&CLASSES);
        let run = 1 + rng.log_range(0, (n - out.len()).min(60));
        for _ in 0..run.min(n - out.len()) {
            out.push(class_char(rng, c));
        }
    }
    out
}

/// envelope strings: head x trail x body
pub fn envelope_strings(rng: &mut Rng, bodies: &[Vec<u8>]) -> Vec<Vec<u8>> {
    let mut out = Vec::new();
    // every prefix of the bare envelopes
    for head in [MACRO05_HEAD, MACRO06_HEAD] {
        let mut full = head.to_vec();
        full.extend_from_slice(MACRO_TRAIL);
        for k in 0..=full.len() {
            out.push(full[..k].to_vec());
        }
    }
    out.push(MACRO_TRAIL.to_vec());
    for body in bodies {
        for head in [Some(MACRO05_HEAD), Some(MACRO06_HEAD), None] {
            for trail in [true, false] {
                if head.is_none() && !trail && rng.chance(3, 4) {
                    continue;
                }
                let mut s = Vec::new();
                if let Some(h) = head {
                    s.extend_from_slice(h);
                }
                s.extend_from_slice(body);
                if trail {
                    s.extend_from_slice(MACRO_TRAIL);
                }
                out.push(s);
            }
        }
    }
    // bodies that themselves end with the trailer bytes
    for body in bodies.iter().take(10) {
        for head in [MACRO05_HEAD, MACRO06_HEAD] {
            let mut s = head.to_vec();
            s.extend_from_slice(body);
            s.extend_from_slice(MACRO_TRAIL);
            s.extend_from_slice(MACRO_TRAIL);
            out.push(s);
        }
    }
    // near misses: every single byte of the head changed
    for body in bodies.iter().take(4) {
        for i in 0..MACRO05_HEAD.len() {
            for delta in [1u8, 0x20] {
                let mut s = MACRO05_HEAD.to_vec();
                s[i] ^= delta;
                s.extend_from_slice(body);
                s.extend_from_slice(MACRO_TRAIL);
                out.push(s);
            }
        }
    }
    // near misses: one byte of the head changed, trailer with one byte changed, head "07"
    for body in bodies.iter().take(6) {
        let mut s = b"[)>\x1E07\x1D".to_vec();
        s.extend_from_slice(body);
        s.extend_from_slice(MACRO_TRAIL);
        out.push(s);
        let mut s = MACRO05_HEAD.to_vec();
        s.extend_from_slice(body);
        s.extend_from_slice(b"\x1E\x05");
        out.push(s);
        let mut s = MACRO05_HEAD.to_vec();
        s.extend_from_slice(body);
        s.extend_from_slice(b"\x04");
        out.push(s);
    }
    out
}
