//! Shared helpers: deterministic RNG, panic capture, watchdog, JSON helpers, configuration enumeration.
use datamatrix::{EncodationType, SymbolList, SymbolSize};
use flagset::FlagSet;
use serde_json::{json, Value};
use std::cell::RefCell;
use std::io::Write;
use std::panic::{catch_unwind, AssertUnwindSafe};
use std::sync::atomic::{AtomicU64, Ordering};
use std::sync::Mutex;

// ---------------------------------------------------------------------------------------------
// RNG (xoshiro256** seeded by splitmix64) - no external crate, reproducible from VERIF_SEED.
#[derive(Clone)]
pub struct Rng {
    s: [u64; 4],
}

impl Rng {
    pub fn new(seed: u64, stream: u64) -> Self {
        let mut z = seed ^ stream.wrapping_mul(0x9E3779B97F4A7C15).rotate_left(17);
        let mut next = || {
            z = z.wrapping_add(0x9E3779B97F4A7C15);
            let mut x = z;
            x = (x ^ (x >> 30)).wrapping_mul(0xBF58476D1CE4E5B9);
            x = (x ^ (x >> 27)).wrapping_mul(0x94D049BB133111EB);
            x ^ (x >> 31)
        };
        Rng {
            s: [next(), next(), next(), next()],
        }
    }
    pub fn u64(&mut self) -> u64 {
        let r = self.s[1].wrapping_mul(5).rotate_left(7).wrapping_mul(9);
        let t = self.s[1] << 17;
        self.s[2] ^= self.s[0];
        self.s[3] ^= self.s[1];
        self.s[1] ^= self.s[2];
        self.s[0] ^= self.s[3];
        self.s[2] ^= t;
        self.s[3] = self.s[3].rotate_left(45);
        r
    }
    /// uniform in 0..n (n > 0)
    pub fn below(&mut self, n: usize) -> usize {
        (self.u64() % (n as u64)) as usize
    }
    pub fn range(&mut self, lo: usize, hi_incl: usize) -> usize {
        lo + self.below(hi_incl - lo + 1)
    }
    pub fn byte(&mut self) -> u8 {
        (self.u64() >> 24) as u8
    }
    pub fn chance(&mut self, num: usize, den: usize) -> bool {
        self.below(den) < num
    }
    pub fn pick<'a, T>(&mut self, xs: &'a [T]) -> &'a T {
        &xs[self.below(xs.len())]
    }
    /// log-uniform integer in lo..=hi
    pub fn log_range(&mut self, lo: usize, hi: usize) -> usize {
        let l = ((lo + 1) as f64).ln();
        let h = ((hi + 1) as f64).ln();
        let u = (self.u64() >> 11) as f64 / (1u64 << 53) as f64;
        let v = (l + u * (h - l)).exp() as usize;
        v.saturating_sub(1).clamp(lo, hi)
    }
}

// ---------------------------------------------------------------------------------------------
// Panic capture: a panic in the code under test is data.
thread_local! {
    static LAST_PANIC: RefCell<Option<(String, String)>> = RefCell::new(None);
}

pub fn install_panic_hook() {
    std::panic::set_hook(Box::new(|info| {
        let loc = info
            .location()
            .map(|l| {
                let f = l.file();
                // keep path relative to the repository
                let f = f.strip_prefix("/repo/").unwrap_or(f);
                format!("{}:{}", f, l.line())
            })
            .unwrap_or_else(|| "?".into());
        let msg = if let Some(s) = info.payload().downcast_ref::<&str>() {
            s.to_string()
        } else if let Some(s) = info.payload().downcast_ref::<String>() {
            s.clone()
        } else {
            "?".to_string()
        };
        LAST_PANIC.with(|p| *p.borrow_mut() = Some((loc, msg)));
    }));
}

pub enum Outcome<T> {
    Val(T),
    Panic(String, String),
}

// Watchdog: the currently running call (id + description); a monitor thread aborts the process
// with exit code 3 after writing a Hang record if a call exceeds the budget.
static CALL_START_MS: AtomicU64 = AtomicU64::new(0);
static CALL_INFO: Mutex<Option<(usize, String)>> = Mutex::new(None);
pub static HANG_OUT: Mutex<Option<String>> = Mutex::new(None);
pub const HANG_BUDGET_MS: u64 = 20_000;

fn now_ms() -> u64 {
    use std::time::{SystemTime, UNIX_EPOCH};
    SystemTime::now()
        .duration_since(UNIX_EPOCH)
        .unwrap()
        .as_millis() as u64
}

/// heartbeats of the worker threads of a storm (0 = not running); a thread that does not beat for HANG_BUDGET_MS hangs
pub static STORM_BEAT: [AtomicU64; 16] = [const { AtomicU64::new(0) }; 16];
pub fn storm_beat(slot: usize, running: bool) {
    STORM_BEAT[slot % 16].store(if running { now_ms() } else { 0 }, Ordering::SeqCst);
}

pub fn start_watchdog() {
    std::thread::spawn(|| loop {
        std::thread::sleep(std::time::Duration::from_millis(250));
        let mut st = CALL_START_MS.load(Ordering::SeqCst);
        for b in STORM_BEAT.iter() {
            let v = b.load(Ordering::SeqCst);
            if v != 0 && (st == 0 || v < st) {
                st = v;
            }
        }
        if st != 0 && now_ms() - st > HANG_BUDGET_MS {
            let info = CALL_INFO.lock().unwrap().clone();
            if let (Some((idx, desc)), Some(path)) = (info, HANG_OUT.lock().unwrap().clone()) {
                let mut f = std::fs::OpenOptions::new()
                    .create(true)
                    .append(true)
                    .open(path)
                    .unwrap();
                let _ = writeln!(f, "{}", json!({"hang_index": idx, "call": desc, "ms": now_ms() - st}));
            }
            std::process::exit(3);
        }
    });
}

pub fn set_case(idx: usize, desc: &str) {
    *CALL_INFO.lock().unwrap() = Some((idx, desc.to_string()));
}

/// Run a call into the code under test; panics become data, long calls trip the watchdog.
pub fn guarded<T>(f: impl FnOnce() -> T) -> Outcome<T> {
    LAST_PANIC.with(|p| *p.borrow_mut() = None);
    CALL_START_MS.store(now_ms(), Ordering::SeqCst);
    let r = catch_unwind(AssertUnwindSafe(f));
    CALL_START_MS.store(0, Ordering::SeqCst);
    match r {
        Ok(v) => Outcome::Val(v),
        Err(_) => {
            let (loc, msg) = LAST_PANIC
                .with(|p| p.borrow_mut().take())
                .unwrap_or(("?".into(), "?".into()));
            Outcome::Panic(loc, msg)
        }
    }
}

pub fn panic_json(loc: &str, msg: &str) -> Value {
    let mut m: String = msg.chars().filter(|c| c.is_ascii() && !c.is_control()).collect();
    m.truncate(160);
    json!({"kind": "Panic", "loc": loc, "msg": m})
}

// ---------------------------------------------------------------------------------------------
pub fn bytes_json(b: &[u8]) -> Value {
    Value::Array(b.iter().map(|x| json!(*x)).collect())
}

pub fn size_name(s: SymbolSize) -> String {
    format!("{:?}", s)
}

/// all 48 sizes in a CANONICAL order (data capacity, then rows^2 + cols^2, taken from the harness's own catalogue): the generated
/// case sets must not depend on how the implementation orders symbols of equal capacity
pub fn all_sizes() -> Vec<SymbolSize> {
    let mut v: Vec<SymbolSize> = SymbolList::all().iter().collect();
    v.sort_by_key(|s| {
        let name = size_name(*s);
        match crate::catalogue::CATALOGUE.iter().find(|c| c.name == name) {
            Some(c) => (c.data, c.rows * c.rows + c.cols * c.cols, 0usize),
            None => (usize::MAX, 0, 0),
        }
    });
    v
}


pub fn size_by_name(n: &str) -> Option<SymbolSize> {
    all_sizes().into_iter().find(|s| size_name(*s) == n)
}

pub const MODES: [EncodationType; 6] = [
    EncodationType::Ascii,
    EncodationType::C40,
    EncodationType::Text,
    EncodationType::X12,
    EncodationType::Edifact,
    EncodationType::Base256,
];
// bit i of a mask = MODES[i]; names used in the specs: ascii c40 text x12 edifact b256
pub fn modes_from_mask(mask: u8) -> FlagSet<EncodationType> {
    let mut f = FlagSet::<EncodationType>::default();
    for (i, m) in MODES.iter().enumerate() {
        if mask & (1 << i) != 0 {
            f |= *m;
        }
    }
    f
}
pub fn mode_name(m: EncodationType) -> &'static str {
    match m {
        EncodationType::Ascii => "ascii",
        EncodationType::C40 => "c40",
        EncodationType::Text => "text",
        EncodationType::X12 => "x12",
        EncodationType::Edifact => "edifact",
        EncodationType::Base256 => "b256",
    }
}

pub fn list_json(l: &SymbolList) -> Value {
    Value::Array(l.iter().map(|s| json!(size_name(s))).collect())
}

/// data capacity, observed through the public API (encode "" into the single size)
pub fn capacity_of(s: SymbolSize) -> usize {
    static TAB: std::sync::OnceLock<Vec<(SymbolSize, usize)>> = std::sync::OnceLock::new();
    let tab = TAB.get_or_init(|| {
        all_sizes()
            .into_iter()
            .map(|s| {
                let c = match guarded(|| datamatrix::DataMatrix::encode(b"", s)) {
                    Outcome::Val(Ok(d)) => d.data_codewords().len(),
                    _ => 0,
                };
                (s, c)
            })
            .collect()
    });
    tab.iter().find(|(t, _)| *t == s).map(|x| x.1).unwrap_or(0)
}

pub struct Out {
    w: std::io::BufWriter<std::fs::File>,
    pub n: usize,
}
impl Out {
    pub fn create(path: &str, append: bool) -> Self {
        let f = std::fs::OpenOptions::new()
            .create(true)
            .write(true)
            .append(append)
            .truncate(!append)
            .open(path)
            .unwrap_or_else(|e| panic!("cannot open {}: {}", path, e));
        Out {
            w: std::io::BufWriter::new(f),
            n: 0,
        }
    }
    pub fn put(&mut self, v: &Value) {
        serde_json::to_writer(&mut self.w, v).unwrap();
        self.w.write_all(b"\n").unwrap();
        // flushed per record: if the watchdog has to kill the process, the file ends with a complete line
        self.w.flush().unwrap();
        self.n += 1;
    }
    pub fn flush(&mut self) {
        self.w.flush().unwrap();
    }
}
