INIT Init
NEXT Next
CONSTRAINT Fits
INVARIANT Emit
CHECK_DEADLOCK FALSE
