---- MODULE GenW ----
EXTENDS Writer, Json, FiniteSets
AllModes == {"ascii", "c40", "text", "x12", "edifact", "b256"}
Sigma == {65, 97, 48, 32, 42, 33, 94, 95, 0, 128, 225, 13}
VARIABLES D, cap, wr, stream
View == <<D, cap, wr, stream>>
Init == /\ D \in UNION {[1..n -> Sigma] : n \in 0..2}
        /\ cap \in {3, 5, 8, 10, 12}
        /\ wr = WInit /\ stream = <<>>
Next == \E s \in Succ(wr, D, cap, AllModes) : wr' = s[1] /\ stream' = stream \o s[2] /\ UNCHANGED <<D, cap>>
Fits == Need(wr) <= cap
Emit == wr.done => PrintT(ToJson([input |-> D, cap |-> cap, stream |-> stream]))
====
