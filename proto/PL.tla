---- MODULE PL ----
EXTENDS Integers, Sequences, SequencesExt, TLC, FiniteSets
\* Annex F as a fold. arr: function 0..nrow*ncol-1 -> 0 (unset) or cw*8+bit+... ; we store cw index*10+bit(1..8)
Mod(st, r0, c0, chr, bit) ==
  LET nrow == st.nrow ncol == st.ncol
      r1 == IF r0 < 0 THEN r0 + nrow ELSE r0
      c1 == IF r0 < 0 THEN c0 + 4 - ((nrow + 4) % 8) ELSE c0
      c2 == IF c1 < 0 THEN c1 + ncol ELSE c1
      r2 == IF c1 < 0 THEN r1 + 4 - ((ncol + 4) % 8) ELSE r1
      r3 == IF r2 >= nrow THEN r2 - nrow ELSE r2
  IN [st EXCEPT !.arr[r3 * ncol + c2 + 1] = chr * 10 + bit]
Utah(st, r, c) == LET k == st.chr
   s1 == Mod(st, r-2, c-2, k, 1) s2 == Mod(s1, r-2, c-1, k, 2) s3 == Mod(s2, r-1, c-2, k, 3) s4 == Mod(s3, r-1, c-1, k, 4)
   s5 == Mod(s4, r-1, c, k, 5) s6 == Mod(s5, r, c-2, k, 6) s7 == Mod(s6, r, c-1, k, 7) s8 == Mod(s7, r, c, k, 8)
   IN [s8 EXCEPT !.chr = k + 1]
Corner1(st) == LET k == st.chr nrow == st.nrow ncol == st.ncol
   s1 == Mod(st, nrow-1, 0, k, 1) s2 == Mod(s1, nrow-1, 1, k, 2) s3 == Mod(s2, nrow-1, 2, k, 3) s4 == Mod(s3, 0, ncol-2, k, 4)
   s5 == Mod(s4, 0, ncol-1, k, 5) s6 == Mod(s5, 1, ncol-1, k, 6) s7 == Mod(s6, 2, ncol-1, k, 7) s8 == Mod(s7, 3, ncol-1, k, 8)
   IN [s8 EXCEPT !.chr = k + 1]
Corner2(st) == LET k == st.chr nrow == st.nrow ncol == st.ncol
   s1 == Mod(st, nrow-3, 0, k, 1) s2 == Mod(s1, nrow-2, 0, k, 2) s3 == Mod(s2, nrow-1, 0, k, 3) s4 == Mod(s3, 0, ncol-4, k, 4)
   s5 == Mod(s4, 0, ncol-3, k, 5) s6 == Mod(s5, 0, ncol-2, k, 6) s7 == Mod(s6, 0, ncol-1, k, 7) s8 == Mod(s7, 1, ncol-1, k, 8)
   IN [s8 EXCEPT !.chr = k + 1]
Corner3(st) == LET k == st.chr nrow == st.nrow ncol == st.ncol
   s1 == Mod(st, nrow-3, 0, k, 1) s2 == Mod(s1, nrow-2, 0, k, 2) s3 == Mod(s2, nrow-1, 0, k, 3) s4 == Mod(s3, 0, ncol-2, k, 4)
   s5 == Mod(s4, 0, ncol-1, k, 5) s6 == Mod(s5, 1, ncol-1, k, 6) s7 == Mod(s6, 2, ncol-1, k, 7) s8 == Mod(s7, 3, ncol-1, k, 8)
   IN [s8 EXCEPT !.chr = k + 1]
Corner4(st) == LET k == st.chr nrow == st.nrow ncol == st.ncol
   s1 == Mod(st, nrow-1, 0, k, 1) s2 == Mod(s1, nrow-1, ncol-1, k, 2) s3 == Mod(s2, 0, ncol-3, k, 3) s4 == Mod(s3, 0, ncol-2, k, 4)
   s5 == Mod(s4, 0, ncol-1, k, 5) s6 == Mod(s5, 1, ncol-3, k, 6) s7 == Mod(s6, 1, ncol-2, k, 7) s8 == Mod(s7, 1, ncol-1, k, 8)
   IN [s8 EXCEPT !.chr = k + 1]
\* one micro-step of the Annex F program; pc in {"top","up","down","done"}
Step(st) ==
  LET nrow == st.nrow ncol == st.ncol r == st.row c == st.col IN
  CASE st.pc = "top" ->
        LET a == IF r = nrow /\ c = 0 THEN Corner1(st) ELSE st
            b == IF r = nrow - 2 /\ c = 0 /\ ncol % 4 # 0 THEN Corner2(a) ELSE a
            d == IF r = nrow - 2 /\ c = 0 /\ ncol % 8 = 4 THEN Corner3(b) ELSE b
            e == IF r = nrow + 4 /\ c = 2 /\ ncol % 8 = 0 THEN Corner4(d) ELSE d
        IN [e EXCEPT !.pc = "up"]
    [] st.pc = "up" ->
        LET a == IF r < nrow /\ c >= 0 /\ st.arr[r * ncol + c + 1] = 0 THEN Utah(st, r, c) ELSE st
            r2 == r - 2 c2 == c + 2
        IN IF r2 >= 0 /\ c2 < ncol THEN [a EXCEPT !.row = r2, !.col = c2]
           ELSE [a EXCEPT !.row = r2 + 1, !.col = c2 + 3, !.pc = "down"]
    [] st.pc = "down" ->
        LET a == IF r >= 0 /\ c < ncol /\ st.arr[r * ncol + c + 1] = 0 THEN Utah(st, r, c) ELSE st
            r2 == r + 2 c2 == c - 2
        IN IF r2 < nrow /\ c2 >= 0 THEN [a EXCEPT !.row = r2, !.col = c2]
           ELSE LET r3 == r2 + 3 c3 == c2 + 1 IN
                [a EXCEPT !.row = r3, !.col = c3, !.pc = IF r3 < nrow \/ c3 < ncol THEN "top" ELSE "done"]
    [] OTHER -> st
Start(nrow, ncol) == [nrow |-> nrow, ncol |-> ncol, row |-> 4, col |-> 0, chr |-> 1, pc |-> "top", arr |-> [i \in 1..nrow*ncol |-> 0]]
Run(nrow, ncol) == FoldLeft(LAMBDA st, i : Step(st), Start(nrow, ncol), [i \in 1..(nrow*ncol) |-> i])
T0 == TLCGet("duration")
R10 == Run(8, 8)
ASSUME PrintT(<<R10.pc, R10.chr, R10.arr>>)
R144 == Run(132, 132)
ASSUME PrintT(<<R144.pc, R144.chr, Cardinality({i \in 1..132*132 : R144.arr[i] = 0}), TLCGet("duration")>>)
R8x144 == Run(6, 132)
ASSUME PrintT(<<R8x144.pc, R8x144.chr, Cardinality({i \in 1..6*132 : R8x144.arr[i] = 0}), TLCGet("duration")>>)
====
