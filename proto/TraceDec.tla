---- MODULE TraceDec ----
EXTENDS Stream, Json, IOUtils, FiniteSets
Cases == ndJsonDeserialize(IOEnv.TRACE)
VARIABLES c, rd
Init == c \in 1..Len(Cases) /\ rd = RInit
Next == /\ rd.status = "run"
        /\ rd' = RStep(rd, Cases[c].stream, Cases[c].bytes, Modes)
        /\ UNCHANGED c
Good == /\ Cases[c].res # "Panic"
        /\ (rd.status = "done" /\ rd.ecis = <<>>) => (Cases[c].res = "Ok" /\ Accepted(rd, Cases[c].bytes))
Verdict == \/ rd.status = "run"
           \/ Good /\ PrintT(<<"DONE", c>>)
           \/ ~Good /\ PrintT(<<"REJECT", c, Cases[c].stream, Cases[c].res, rd.status, rd.reason, rd.ok, rd.outLen>>) /\ FALSE
====
