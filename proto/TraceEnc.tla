---- MODULE TraceEnc ----
EXTENDS Stream, Json, IOUtils, FiniteSets
Cases == ndJsonDeserialize(IOEnv.TRACE)
ModeNames == <<"ascii", "c40", "text", "x12", "edifact", "b256">>
EnOf(mask) == {ModeNames[i] : i \in {i \in 1..6 : (mask \div (2 ^ (i - 1))) % 2 = 1}}
VARIABLES c, rd
vars == <<c, rd>>
Init == c \in 1..Len(Cases) /\ rd = RInit
Next == /\ rd.status = "run" /\ Cases[c].stream # <<>>
        /\ rd' = RStep(rd, Cases[c].stream, Cases[c].input, EnOf(Cases[c].modes))
        /\ UNCHANGED c
Verdict == \/ rd.status = "run"
           \/ /\ rd.status = "done" /\ Accepted(rd, Cases[c].input) /\ ~rd.disabledLatch /\ TailOK(rd, EnOf(Cases[c].modes))
              /\ PrintT(<<"DONE", c, rd.lenient>>)
           \/ /\ ~(rd.status = "done" /\ Accepted(rd, Cases[c].input) /\ ~rd.disabledLatch /\ TailOK(rd, EnOf(Cases[c].modes)))
              /\ PrintT(<<"REJECT", c, rd.status, rd.reason, rd.ok, rd.outLen, rd.disabledLatch, rd.asciiBeforeLatch, rd.tailCw>>)
              /\ FALSE
====
