INIT Init
NEXT Next
CONSTRAINT Fits
VIEW View
INVARIANT Minimal
CHECK_DEADLOCK FALSE
