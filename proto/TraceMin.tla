---- MODULE TraceMin ----
EXTENDS Writer, Json, IOUtils, FiniteSets
Cases == ndJsonDeserialize(IOEnv.TRACE)
AllModes == {"ascii", "c40", "text", "x12", "edifact", "b256"}
VARIABLES c, cap, wr, stream
vars == <<c, cap, wr, stream>>
View == <<c, cap, wr.pos, wr.mode, Len(wr.buf), Len(wr.grp), wr.w, wr.done>>
Init == /\ c \in 1..Len(Cases)
        /\ cap \in {x \in {Cases[c].caps[i] : i \in 1..Len(Cases[c].caps)} : x < Cases[c].cap}
        /\ wr = WInit /\ stream = <<>>
Next == \E s \in Succ(wr, Cases[c].input, cap, AllModes) :
          /\ wr' = s[1] /\ stream' = stream \o s[2] /\ UNCHANGED <<c, cap>>
Fits == Need(wr) <= cap
Minimal == wr.done => (PrintT(<<"WITNESS", c, cap, stream>>) /\ FALSE)
====
