---- MODULE TracePath ----
EXTENDS Integers, Sequences, SequencesExt, TLC, Json, IOUtils
Cases == ndJsonDeserialize(IOEnv.TRACE)
VARIABLES c, l, pen, ve
W == Cases[c].w
H == Cases[c].h
Segs == Cases[c].segs
Init == /\ c \in 1..Len(Cases) /\ l = 1
        /\ pen = [x |-> 0, y |-> 0, sx |-> 0, sy |-> 0, open |-> TRUE, afterClose |-> FALSE, bad |-> ""]
        /\ ve = [yy \in 1..Cases[c].h |-> [xx \in 1..(Cases[c].w + 1) |-> 0]]
Inside(x, y) == x >= 0 /\ x <= W /\ y >= 0 /\ y <= H
\* toggle vertical unit edges on column x between y0 and y1
Toggle(v, x, y0, y1) == LET a == IF y0 < y1 THEN y0 ELSE y1  b == IF y0 < y1 THEN y1 ELSE y0
                        IN FoldLeft(LAMBDA acc, yy : [acc EXCEPT ![yy][x + 1] = 1 - @], v, [i \in 1..(b - a) |-> a + i])
Step == /\ l <= Len(Segs) /\ pen.bad = ""
        /\ LET s == Segs[l] IN
           CASE s[1] = "H" -> /\ pen' = [pen EXCEPT !.x = @ + s[2], !.afterClose = FALSE,
                                            !.bad = IF ~pen.open THEN "draw after close" ELSE IF s[2] = 0 THEN "zero length"
                                                    ELSE IF ~Inside(pen.x + s[2], pen.y) THEN "outside" ELSE ""]
                              /\ UNCHANGED ve
             [] s[1] = "V" -> /\ pen' = [pen EXCEPT !.y = @ + s[2], !.afterClose = FALSE,
                                            !.bad = IF ~pen.open THEN "draw after close" ELSE IF s[2] = 0 THEN "zero length"
                                                    ELSE IF ~Inside(pen.x, pen.y + s[2]) THEN "outside" ELSE ""]
                              /\ ve' = IF pen.open /\ Inside(pen.x, pen.y + s[2]) THEN Toggle(ve, pen.x, pen.y, pen.y + s[2]) ELSE ve
             [] s[1] = "M" -> /\ pen' = [pen EXCEPT !.x = @ + s[2], !.y = @ + s[3], !.sx = pen.x + s[2], !.sy = pen.y + s[3],
                                            !.open = TRUE, !.afterClose = FALSE,
                                            !.bad = IF ~pen.afterClose THEN "move not after close"
                                                    ELSE IF ~Inside(pen.x + s[2], pen.y + s[3]) THEN "outside" ELSE ""]
                              /\ UNCHANGED ve
             [] OTHER      -> /\ pen' = [pen EXCEPT !.x = pen.sx, !.y = pen.sy, !.open = FALSE, !.afterClose = TRUE,
                                            !.bad = IF ~pen.open THEN "double close"
                                                    ELSE IF pen.x # pen.sx /\ pen.y # pen.sy THEN "diagonal close"
                                                    ELSE IF pen.x = pen.sx /\ pen.y = pen.sy THEN "zero-length close" ELSE ""]
                              /\ ve' = IF pen.open /\ pen.x = pen.sx THEN Toggle(ve, pen.x, pen.y, pen.sy) ELSE ve
        /\ l' = l + 1 /\ UNCHANGED c
Next == Step
\* even-odd fill: cell (cx, cy) dark iff odd number of toggled vertical edges at columns <= cx in row cy
RowOK(yy) == LET par == FoldLeft(LAMBDA acc, xx : <<(acc[1] + ve[yy][xx]) % 2,
                                   acc[2] /\ ((acc[1] + ve[yy][xx]) % 2 = Cases[c].px[(yy - 1) * W + xx])>>,
                                 <<0, TRUE>>, [i \in 1..W |-> i])
             IN par[2]
Terminal == l = Len(Segs) + 1 \/ pen.bad # ""
Verdict == \/ ~Terminal
           \/ /\ pen.bad = "" /\ ~pen.open /\ (\A yy \in 1..H : RowOK(yy)) /\ PrintT(<<"DONE", c, Len(Segs)>>)
           \/ /\ ~(pen.bad = "" /\ ~pen.open /\ (\A yy \in 1..H : RowOK(yy))) /\ PrintT(<<"REJECT", c, l, pen.bad>>) /\ FALSE
====
