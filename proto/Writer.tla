------------------------------- MODULE Writer -------------------------------
(***************************************************************************)
(* Nondeterministic reference ENCODER: each behaviour is one strictly      *)
(* legal ISO/IEC 16022 encoding of D into exactly `cap` codewords using    *)
(* only the modes in En.  (Prototype: "ascii" \in En assumed, no prefix.)   *)
(***************************************************************************)
EXTENDS Integers, Sequences, SequencesExt, TLC

Pad253(p) == LET t == 129 + ((149 * p) % 253) + 1 IN IF t <= 254 THEN t ELSE t - 254
Rnd255(v, p) == LET t == v + ((149 * p) % 255) + 1 IN IF t <= 255 THEN t ELSE t - 256

IsDigit(ch) == ch \in 48..57
\* C40 / Text values of one input byte (sequence of 1..4 values)
LowVals(m, ch) ==
  IF ch = 32 THEN <<3>>
  ELSE IF ch \in 48..57 THEN <<ch - 44>>
  ELSE IF m = "c40"  /\ ch \in 65..90  THEN <<ch - 51>>
  ELSE IF m = "text" /\ ch \in 97..122 THEN <<ch - 83>>
  ELSE IF ch <= 31 THEN <<0, ch>>
  ELSE IF ch \in 33..47 THEN <<1, ch - 33>>
  ELSE IF ch \in 58..64 THEN <<1, ch - 43>>
  ELSE IF ch \in 91..95 THEN <<1, ch - 69>>
  ELSE IF m = "c40" THEN <<2, ch - 96>>                                  \* 96..127
  ELSE IF ch = 96 THEN <<2, 0>> ELSE IF ch \in 65..90 THEN <<2, ch - 64>> ELSE <<2, ch - 96>>  \* text: ` A-Z { | } ~ DEL
Vals(m, ch) == IF ch >= 128 THEN <<1, 30>> \o LowVals(m, ch - 128) ELSE LowVals(m, ch)
Pack3(a, b, c) == LET v == 1600 * a + 40 * b + c + 1 IN <<v \div 256, v % 256>>
X12Native(ch) == ch \in {13, 42, 62, 32} \/ ch \in 48..57 \/ ch \in 65..90
X12Val(ch) == CASE ch = 13 -> 0 [] ch = 42 -> 1 [] ch = 62 -> 2 [] ch = 32 -> 3
                [] ch \in 48..57 -> ch - 44 [] OTHER -> ch - 51
EdfOK(ch) == ch \in 32..94
EdfCw(k) == IF k = 0 THEN 0 ELSE IF k >= 3 THEN 3 ELSE k            \* codewords needed for k values of a group
EdfBytes(vals) ==   \* vals: 1..4 six-bit values -> first EdfCw(Len) codewords
  LET v(i) == IF i <= Len(vals) THEN vals[i] ELSE 0
      bits == v(1) * 262144 + v(2) * 4096 + v(3) * 64 + v(4)
      all == <<bits \div 65536, (bits \div 256) % 256, bits % 256>>
  IN SubSeq(all, 1, EdfCw(Len(vals)))

WInit == [pos |-> 1, mode |-> "ascii", buf |-> <<>>, grp |-> <<>>, w |-> 0, done |-> FALSE]

\* All actions take the current record wr and stream st and yield a set of <<wr', appended codewords>>.
\* D: input bytes, cap: symbol capacity, En: enabled modes.
Succ(wr, D, cap, En) ==
  LET n == Len(D)  pos == wr.pos  w == wr.w  rem == cap - wr.w
      adv(r, cws) == <<[r EXCEPT !.w = @ + Len(cws)], cws>>
  IN
  IF wr.done THEN {}
  ELSE IF wr.mode = "ascii" THEN
       (IF pos <= n THEN
            {adv([wr EXCEPT !.pos = pos + 1], IF D[pos] < 128 THEN <<D[pos] + 1>> ELSE <<235, D[pos] - 127>>)}
            \cup (IF pos + 1 <= n /\ IsDigit(D[pos]) /\ IsDigit(D[pos + 1])
                  THEN {adv([wr EXCEPT !.pos = pos + 2], <<130 + (D[pos] - 48) * 10 + (D[pos + 1] - 48)>>)} ELSE {})
            \cup {adv([wr EXCEPT !.mode = "c40"], <<230>>) : x \in IF "c40" \in En THEN {1} ELSE {}}
            \cup {adv([wr EXCEPT !.mode = "text"], <<239>>) : x \in IF "text" \in En THEN {1} ELSE {}}
            \cup {adv([wr EXCEPT !.mode = "x12"], <<238>>) : x \in IF "x12" \in En THEN {1} ELSE {}}
            \cup {adv([wr EXCEPT !.mode = "edifact"], <<240>>) : x \in IF "edifact" \in En THEN {1} ELSE {}}
            \cup (IF "b256" \in En THEN
                    { LET body == (IF L <= 249 THEN <<L>> ELSE <<(L \div 250) + 249, L % 250>>) \o SubSeq(D, pos, pos + L - 1)
                      IN adv([wr EXCEPT !.pos = pos + L], <<231>> \o [i \in 1..Len(body) |-> Rnd255(body[i], w + 1 + i)])
                      : L \in 1..(n - pos + 1) }
                    \cup (IF w + 2 + (n - pos + 1) = cap
                          THEN { LET body == <<0>> \o SubSeq(D, pos, n)
                                 IN adv([wr EXCEPT !.pos = n + 1, !.done = TRUE], <<231>> \o [i \in 1..Len(body) |-> Rnd255(body[i], w + 1 + i)]) }
                          ELSE {})
                  ELSE {})
        ELSE \* end of data in ASCII: pad
            {adv([wr EXCEPT !.done = TRUE],
                 IF rem = 0 THEN <<>> ELSE <<129>> \o [i \in 1..(rem - 1) |-> Pad253(w + 1 + i)])})
  ELSE IF wr.mode \in {"c40", "text"} THEN
       LET nb == Len(wr.buf) IN
       (IF pos <= n THEN
            LET b2 == wr.buf \o Vals(wr.mode, D[pos])
                nt == Len(b2) \div 3
                out == FoldLeft(LAMBDA acc, t : acc \o Pack3(b2[3*t-2], b2[3*t-1], b2[3*t]), <<>>, [t \in 1..nt |-> t])
            IN {adv([wr EXCEPT !.pos = pos + 1, !.buf = SubSeq(b2, 3 * nt + 1, Len(b2))], out)}
        ELSE {})
       \cup (IF nb = 0 THEN {adv([wr EXCEPT !.mode = "ascii"], <<254>>)} ELSE {})                    \* explicit unlatch
       \cup (IF nb = 0 /\ pos = n + 1 /\ rem = 0 THEN {adv([wr EXCEPT !.done = TRUE], <<>>)} ELSE {})     \* rule a / exact fit
       \cup (IF nb = 2 /\ pos = n + 1 /\ rem = 2
             THEN {adv([wr EXCEPT !.done = TRUE, !.buf = <<>>], Pack3(wr.buf[1], wr.buf[2], 0))} ELSE {})  \* rule b
       \cup (IF nb = 0 /\ pos = n /\ rem = 1 /\ D[pos] < 128 /\ Len(Vals(wr.mode, D[pos])) = 1
             THEN {adv([wr EXCEPT !.pos = n + 1, !.done = TRUE], <<D[pos] + 1>>)} ELSE {})                 \* rule d (literal)
  ELSE IF wr.mode = "x12" THEN
       (IF pos + 2 <= n /\ X12Native(D[pos]) /\ X12Native(D[pos + 1]) /\ X12Native(D[pos + 2])
        THEN {adv([wr EXCEPT !.pos = pos + 3], Pack3(X12Val(D[pos]), X12Val(D[pos + 1]), X12Val(D[pos + 2])))} ELSE {})
       \cup {adv([wr EXCEPT !.mode = "ascii"], <<254>>)}
       \cup (IF pos = n + 1 /\ rem = 0 THEN {adv([wr EXCEPT !.done = TRUE], <<>>)} ELSE {})
       \cup (IF pos = n /\ rem = 1 /\ D[pos] < 128
             THEN {adv([wr EXCEPT !.pos = n + 1, !.done = TRUE], <<D[pos] + 1>>)} ELSE {})
  ELSE \* edifact; wr.grp = values of the current (incomplete) group, their codewords are emitted when the group closes
       LET k == Len(wr.grp) IN
       IF k = 0 /\ rem <= 2 THEN {adv([wr EXCEPT !.mode = "ascii"], <<>>)}                              \* <= 2 codewords left: ASCII
       ELSE
       (IF pos <= n /\ EdfOK(D[pos]) THEN
            LET g2 == Append(wr.grp, D[pos] % 64) IN
            IF k = 3 THEN {adv([wr EXCEPT !.pos = pos + 1, !.grp = <<>>], EdfBytes(g2))}
            ELSE {<<[wr EXCEPT !.pos = pos + 1, !.grp = g2], <<>>>>}
        ELSE {})
       \cup {adv([wr EXCEPT !.mode = "ascii", !.grp = <<>>], EdfBytes(Append(wr.grp, 31)))}               \* unlatch at position k+1
       \cup (IF k = 0 /\ pos = n + 1 /\ rem = 0 THEN {adv([wr EXCEPT !.done = TRUE], <<>>)} ELSE {})

\* pending EDIFACT codewords count toward the capacity
Need(wr) == wr.w + (IF wr.mode = "edifact" THEN EdfCw(Len(wr.grp)) + (IF Len(wr.grp) \in 1..3 THEN 0 ELSE 0) ELSE 0)
=============================================================================
