# Strict reference "writer": does some legal ISO 16022 encoding of `data` fit in `cap` codewords?
import sys, json
from functools import lru_cache

def c40_vals(ch, text=False):
    if ch >= 128: return 2 + c40_vals(ch-128, text)
    if ch == 32 or 48 <= ch <= 57: return 1
    if not text and 65 <= ch <= 90: return 1
    if text and 97 <= ch <= 122: return 1
    return 2
def x12_native(ch): return ch in (13, 42, 62, 32) or 48<=ch<=57 or 65<=ch<=90
def edf_ok(ch): return 32 <= ch <= 94
def isdig(ch): return 48 <= ch <= 57
def ascii_size1(ch): return 1 if ch < 128 else 2
CWK = [0,1,2,3,3]

def fits(data, cap, enabled=frozenset("ACTXEB"), w0=0):
    n = len(data)
    sys.setrecursionlimit(100000)
    seen = set()
    stack = [('A', 0, w0, 0)]
    ascii_ok = 'A' in enabled
    while stack:
        st = stack.pop()
        if st in seen: continue
        seen.add(st)
        mode, pos, w, k = st
        if w > cap: continue
        def push(s):
            if s not in seen and s[2] <= cap: stack.append(s)
        if mode == 'A' or mode == 'a':   # 'a' = ascii tail fallback (ascii disabled): limited
            if pos == n: return True
            allow = ascii_ok or mode == 'a'
            if allow:
                ch = data[pos]
                push((mode, pos+1, w+ascii_size1(ch), 0))
                if pos+1 < n and isdig(ch) and isdig(data[pos+1]): push((mode, pos+2, w+1, 0))
            if mode == 'A':
                for m in "CTXE":
                    if m in enabled: push((m, pos, w+1, 0))
                if 'B' in enabled:
                    for L in range(1, min(n-pos, 1555)+1):
                        push(('A', pos+L, w+1+(1 if L <= 249 else 2)+L, 0))
                    L = n-pos
                    if w+2+L == cap: return True
        elif mode in 'CT':
            text = mode == 'T'
            tail = 'A' if ascii_ok else 'a'
            if pos == n:
                if k == 0 and w == cap: return True
                if k == 2 and cap - w == 2: return True
            if k == 0:
                push(('A', pos, w+1, 0))  # unlatch (then ascii / latch / pad)
                if not ascii_ok: push(('a', pos, w+1, 0))
                if pos == n-1 and cap - w == 1 and data[pos] < 128 and c40_vals(data[pos], text) == 1: return True   # rule d (literal)
            if pos < n:
                t = k + c40_vals(data[pos], text)
                push((mode, pos+1, w+2*(t//3), t%3))
        elif mode == 'X':
            if pos == n and w == cap: return True
            push(('A', pos, w+1, 0))
            if not ascii_ok: push(('a', pos, w+1, 0))
            if pos == n-1 and cap - w == 1 and data[pos] < 128: return True
            if pos+2 < n and all(x12_native(c) for c in data[pos:pos+3]): push(('X', pos+3, w+2, 0))
        elif mode == 'E':
            rem = cap - w
            if k == 0:
                if pos == n and rem <= 2: return True
                if rem <= 2:
                    push(('A' if ascii_ok else 'a', pos, w, 0)); continue
            # unlatch at value position k+1
            nw = w + CWK[k+1]
            push(('A', pos, nw, 0))
            if not ascii_ok: push(('a', pos, nw, 0))
            if pos < n and edf_ok(data[pos]):
                if k == 3:
                    push(('E', pos+1, w+3, 0))
                    if pos+1 == n and w+3 == cap: return True
                else: push(('E', pos+1, w, k+1))
    return False

CAPS_DEFAULT = sorted(set([3,5,8,12,18,22,30,36,44,62,86,114,144,174,204,280,368,456,576,696,816,1050,1304,1558,5,10,16,22,32,49]))
def mincap(data, caps=CAPS_DEFAULT, enabled=frozenset("ACTXEB")):
    for c in caps:
        if fits(data, c, enabled): return c
    return None
if __name__ == "__main__":
    bad = 0; n = 0; better = 0
    for line in sys.stdin:
        r = json.loads(line)
        data = bytes(r["input"]); got = r["cap"]
        want = mincap(data)
        n += 1
        if want != got:
            if got is None or (want is not None and want < got):
                bad += 1
                if bad <= 40: print("NONMIN", data, "crate", got, "oracle", want, r.get("plan"))
            else:
                better += 1; print("CRATE-BETTER", data, got, want)
    print("cases", n, "nonminimal", bad, "crate-better", better)
