use datamatrix::data;
use std::io::BufRead;
fn main() {
    std::panic::set_hook(Box::new(|_| {}));
    let stdin = std::io::stdin();
    let (mut n, mut bad, mut pan) = (0, 0, 0);
    for line in stdin.lock().lines() {
        let line = line.unwrap();
        let v: serde_json::Value = serde_json::from_str(&line).unwrap();
        let input: Vec<u8> = v["input"].as_array().unwrap().iter().map(|x| x.as_u64().unwrap() as u8).collect();
        let stream: Vec<u8> = v["stream"].as_array().unwrap().iter().map(|x| x.as_u64().unwrap() as u8).collect();
        n += 1;
        let s2 = stream.clone();
        match std::panic::catch_unwind(move || data::decode_data(&s2)) {
            Err(_) => { pan += 1; if pan < 5 { println!("PANIC {:?} {:?}", input, stream); } }
            Ok(r) => if r.as_deref() != Ok(&input[..]) { bad += 1; if bad < 12 { println!("BAD {:?} -> {:?}   stream {:?}", input, r, stream); } }
        }
    }
    println!("n {} bad {} panic {}", n, bad, pan);
}
