# Independent ISO/IEC 16022 data codeword reader (dry run of Stream.tla semantics)
import sys, json
C40_BASE = b" 0123456789ABCDEFGHIJKLMNOPQRSTUVWXYZ"
TEXT_BASE = b" 0123456789abcdefghijklmnopqrstuvwxyz"
SHIFT2 = b"!\"#$%&'()*+,-./:;<=>?@[\\]^_"
C40_S3 = bytes(range(96,128))
TEXT_S3 = b"`ABCDEFGHIJKLMNOPQRSTUVWXYZ{|}~\x7f"
X12 = b"\r*> 0123456789ABCDEFGHIJKLMNOPQRSTUVWXYZ"
class Reject(Exception): pass
def r253(pos): 
    t = 129 + (149*pos) % 253 + 1
    return t if t <= 254 else t - 254
def un255(v, pos):
    t = v - ((149*pos) % 255 + 1)
    return t if t >= 0 else t + 256
def read(cw):
    n = len(cw); pos = 0; out = bytearray(); info = {"latches": [], "lenient": [], "pads": 0, "eci": []}
    macro = None
    if n and cw[0] in (236, 237):
        macro = cw[0]; out += b"[)>\x1e05\x1d" if macro == 236 else b"[)>\x1e06\x1d"; pos = 1
    if pos < n and cw[pos] == 232 and pos == 0: info["fnc1"] = True; pos += 1
    mode = 'A'; upper = False
    while pos < n:
        if mode == 'A':
            c = cw[pos]; pos += 1
            if upper:
                if not 1 <= c <= 128: raise Reject("after upper shift %d" % c)
                out.append(c + 127); upper = False
            elif 1 <= c <= 128: out.append(c - 1)
            elif c == 129:
                info["pads"] = n - pos + 1
                for p in range(pos, n):
                    if cw[p] != r253(p + 1): raise Reject("bad pad at %d" % p)
                pos = n
            elif 130 <= c <= 229: out += b"%02d" % (c - 130)
            elif c == 230: mode = 'C'; info["latches"].append('C')
            elif c == 231: mode = 'B'; info["latches"].append('B')
            elif c == 232: out.append(29)
            elif c == 235: upper = True
            elif c == 238: mode = 'X'; info["latches"].append('X')
            elif c == 239: mode = 'T'; info["latches"].append('T')
            elif c == 240: mode = 'E'; info["latches"].append('E')
            elif c == 241:
                if pos >= n: raise Reject("eci end")
                c1 = cw[pos]; pos += 1
                if 1 <= c1 <= 127: e = c1 - 1
                elif 128 <= c1 <= 191:
                    if pos >= n: raise Reject("eci end")
                    c2 = cw[pos]; pos += 1
                    if not 1 <= c2 <= 254: raise Reject("eci2")
                    e = (c1 - 128) * 254 + 127 + c2 - 1
                elif 192 <= c1 <= 207:
                    if pos + 1 >= n: raise Reject("eci end")
                    c2, c3 = cw[pos], cw[pos+1]; pos += 2
                    if not (1 <= c2 <= 254 and 1 <= c3 <= 254): raise Reject("eci3")
                    e = (c1 - 192) * 64516 + 16383 + (c2 - 1) * 254 + c3 - 1
                else: raise Reject("eci1")
                info["eci"].append((len(out), e))
            else: raise Reject("illegal ascii codeword %d" % c)
        elif mode in 'CT':
            base, s3 = (C40_BASE, C40_S3) if mode == 'C' else (TEXT_BASE, TEXT_S3)
            shift = 0; up = False
            while True:
                rem = n - pos
                if rem == 0: mode = 'A'; break
                if rem == 1:
                    # single codeword left: ASCII (implicit unlatch) - may also be explicit 254
                    if cw[pos] == 254: pos += 1
                    mode = 'A'; break
                if cw[pos] == 254: pos += 1; mode = 'A'; break
                v = cw[pos] * 256 + cw[pos+1] - 1; pos += 2
                if v < 0: raise Reject("c40 pair 0,0")
                vals = (v // 1600, (v // 40) % 40, v % 40)
                if vals[0] > 39: raise Reject("c40 value > 39")
                for x in vals:
                    if shift == 0:
                        if x <= 2: shift = x + 1
                        else:
                            ch = base[x - 3]; out.append(ch + (128 if up else 0)); up = False
                    elif shift == 1:
                        if x > 31: raise Reject("shift1 value")
                        out.append(x + (128 if up else 0)); up = False; shift = 0
                    elif shift == 2:
                        if x <= 26: out.append(SHIFT2[x] + (128 if up else 0)); up = False
                        elif x == 27: raise Reject("FNC1 in c40")
                        elif x == 30: up = True
                        else: raise Reject("shift2 value")
                        shift = 0
                    else:
                        if x > 31: raise Reject("shift3 value")
                        out.append(s3[x] + (128 if up else 0)); up = False; shift = 0
            if shift or up: info["lenient"].append("dangling shift")
        elif mode == 'X':
            while True:
                rem = n - pos
                if rem == 0: mode = 'A'; break
                if rem == 1:
                    if cw[pos] == 254: pos += 1
                    mode = 'A'; break
                if cw[pos] == 254: pos += 1; mode = 'A'; break
                v = cw[pos] * 256 + cw[pos+1] - 1; pos += 2
                if v < 0: raise Reject("x12 pair 0,0")
                for x in (v // 1600, (v // 40) % 40, v % 40):
                    if x > 39: raise Reject("x12 value")
                    out.append(X12[x])
        elif mode == 'E':
            while True:
                rem = n - pos
                if rem <= 2: mode = 'A'; break
                bits = (cw[pos] << 16) | (cw[pos+1] << 8) | cw[pos+2]
                done = False; used = 0
                for i in range(4):
                    v = (bits >> (18 - 6*i)) & 63
                    used = [1, 2, 3, 3][i]
                    if v == 31: done = True; break
                    out.append(v if v & 32 else v | 64)
                pos += used if done else 3
                if done: mode = 'A'; break
        elif mode == 'B':
            d1 = un255(cw[pos], pos + 1); pos += 1
            if d1 == 0: L = n - pos
            elif d1 < 250: L = d1
            else:
                if pos >= n: raise Reject("b256 len")
                L = 250 * (d1 - 249) + un255(cw[pos], pos + 1); pos += 1
            if pos + L > n: raise Reject("b256 overrun")
            for i in range(L): out.append(un255(cw[pos], pos + 1)); pos += 1
            mode = 'A'
    if upper: raise Reject("dangling ascii upper shift")
    if macro: out += b"\x1e\x04"
    return bytes(out), info
if __name__ == "__main__":
    n = bad = len_ = 0
    for line in sys.stdin:
        r = json.loads(line)
        if r["stream"] is None: continue
        n += 1
        try:
            o, info = read(r["stream"])
            if o != bytes(r["input"]):
                bad += 1
                if bad < 15: print("MISMATCH", bytes(r["input"]), r["stream"], o, r["modes"])
            if info["lenient"]: len_ += 1
        except Reject as e:
            bad += 1
            if bad < 15: print("REJECT", e, bytes(r["input"]), r["stream"], r["modes"])
    print("checked", n, "bad", bad, "lenient", len_)
