import json, random, sys
# GF(256) mod 0x12D
alog=[0]*255; log=[0]*256; p=1
for i in range(255):
    alog[i]=p; log[p]=i; p<<=1
    if p>=256: p^=0x12D
def mul(a,b): return 0 if a==0 or b==0 else alog[(log[a]+log[b])%255]
def inv(a): return alog[(255-log[a])%255]
def pmul(a,b):
    r=[0]*(len(a)+len(b)-1)
    for i,x in enumerate(a):
        for j,y in enumerate(b): r[i+j]^=mul(x,y)
    return r
def gen(k, first=1):
    g=[1]
    for i in range(first, first+k): g=pmul(g,[1,alog[i%255]])
    return g  # highest degree first
def syn(word,k):  # word highest degree first
    out=[]
    for j in range(1,k+1):
        x=alog[j%255]; acc=0
        for c in word: acc=mul(acc,x)^c
        out.append(acc)
    return out
def encode(data,k):
    g=gen(k); rem=list(data)+[0]*k
    for i in range(len(data)):
        c=rem[i]
        if c:
            for j,gc in enumerate(g): rem[i+j]^=mul(gc,c)
    return list(data)+rem[len(data):]
rng=random.Random(5)
cases=[]
for (name,nd,k) in [("Square10",3,5),("Square12",5,7),("Square14",8,10),("Rect8x32",10,11)]:
    n=nd+k; t=k//2
    for rep in range(200):
        data=[rng.randrange(256) for _ in range(nd)]
        c=encode(data,k)
        assert not any(syn(c,k))
        m=rng.randrange(0,k)   # first m syndromes zero
        gm=gen(m)              # degree m, roots alpha^1..alpha^m
        shift=rng.randrange(0,n-m)
        sc=rng.randrange(1,256)
        g=[0]*(n-m-1-shift)+[mul(sc,x) for x in gm]+[0]*shift
        assert len(g)==n
        s=syn(g,k); assert all(v==0 for v in s[:m]) and s[m]!=0, (m,s)
        # plus up to t correctable errors? keep zero for panic family; add e for C09 family when m>=2t
        e=[0]*n
        if m>=2*t and rng.random()<.7:
            for pos in rng.sample(range(n), rng.randrange(0,t+1)): e[pos]=rng.randrange(1,256)
        r=[a^b^cc for a,b,cc in zip(c,g,e)]
        cases.append({"size":name,"sent":c,"recv":r,"m":m,"nd":nd})
for cs in cases: print(json.dumps(cs))
