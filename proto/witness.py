import sys
from oracle import *
def path(data, cap, enabled=frozenset("ACTXEB")):
    n = len(data); ascii_ok = 'A' in enabled
    parent = {}; start = ('A',0,0,0); stack=[start]; seen=set()
    def out(st, how):
        p=[how]; 
        while st != start:
            st, h = parent[st]; p.append(h)
        return list(reversed(p))
    while stack:
        st = stack.pop()
        if st in seen: continue
        seen.add(st)
        mode,pos,w,k = st
        if w>cap: continue
        def push(s, how):
            if s not in seen and s not in parent and s[2]<=cap: parent[s]=(st,how); stack.append(s)
        if mode in 'Aa':
            if pos==n: return out(st,'END pad %d'%(cap-w))
            ch=data[pos]
            push((mode,pos+1,w+ascii_size1(ch),0),'asc(%c)'%ch)
            if pos+1<n and isdig(ch) and isdig(data[pos+1]): push((mode,pos+2,w+1,0),'dig')
            if mode=='A':
                for m in "CTXE": push((m,pos,w+1,0),'latch'+m)
                for L in range(1,min(n-pos,1555)+1): push(('A',pos+L,w+1+(1 if L<=249 else 2)+L,0),'b256(%d)'%L)
                if w+2+(n-pos)==cap: return out(st,'b256-to-end')
        elif mode in 'CT':
            text=mode=='T'
            if pos==n:
                if k==0 and w==cap: return out(st,'END-nounlatch')
                if k==2 and cap-w==2: return out(st,'END-ruleb')
            if k==0:
                push(('A',pos,w+1,0),'unlatch')
                if pos==n-1 and cap-w==1 and data[pos]<128: return out(st,'END-ruled')
            if pos<n:
                t=k+c40_vals(data[pos],text); push((mode,pos+1,w+2*(t//3),t%3),'c(%c)'%data[pos])
        elif mode=='X':
            if pos==n and w==cap: return out(st,'END-nounlatch')
            push(('A',pos,w+1,0),'unlatch')
            if pos==n-1 and cap-w==1 and data[pos]<128: return out(st,'END-ruled')
            if pos+2<n and all(x12_native(c) for c in data[pos:pos+3]): push(('X',pos+3,w+2,0),'x3')
        elif mode=='E':
            rem=cap-w
            if k==0:
                if pos==n and rem<=2: return out(st,'END-edf')
                if rem<=2: push(('A',pos,w,0),'edf-tail'); continue
            push(('A',pos,w+CWK[k+1],0),'eunlatch@%d'%(k+1))
            if pos<n and edf_ok(data[pos]):
                if k==3:
                    if pos+1==n and w+3==cap: return out(st,'e+END')
                    push(('E',pos+1,w+3,0),'e(%c)'%data[pos])
                else: push(('E',pos+1,w,k+1),'e(%c)'%data[pos])
    return None
for s,cap in [(b'b>aab1bb>',8),(b'*a>*a1*>***>a',12),(b'  b*aaa*1a>',10),(b'1B2B2BB1A2112',10),(b'abb >1 b>',8)]:
    print(s,cap,path(s,cap))
