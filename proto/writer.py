# Random strictly-legal encodings (dry run of Writer.tla): random walk over writer actions, builds the stream.
import random, json, sys
from oracle import c40_vals, x12_native, edf_ok, isdig
from reader import read, Reject, r253
C40_BASE = b" 0123456789ABCDEFGHIJKLMNOPQRSTUVWXYZ"
TEXT_BASE = b" 0123456789abcdefghijklmnopqrstuvwxyz"
SHIFT2 = b"!\"#$%&'()*+,-./:;<=>?@[\\]^_"
TEXT_S3 = b"`ABCDEFGHIJKLMNOPQRSTUVWXYZ{|}~\x7f"
X12 = b"\r*> 0123456789ABCDEFGHIJKLMNOPQRSTUVWXYZ"
def c40_values(ch, text):
    if ch >= 128: return [1, 30] + c40_values(ch - 128, text)
    base = TEXT_BASE if text else C40_BASE
    if ch in base: return [base.index(ch) + 3]
    if ch < 32: return [0, ch]
    if ch in SHIFT2: return [1, SHIFT2.index(ch)]
    s3 = TEXT_S3 if text else bytes(range(96, 128))
    return [2, s3.index(ch)]
def pack3(a, b, c):
    v = 1600*a + 40*b + c + 1; return [v >> 8, v & 255]
def rnd255(v, pos):
    t = v + (149*pos) % 255 + 1
    return t if t <= 255 else t - 256
def gen(data, cap, rng, enabled="ACTXEB", tries=200):
    n = len(data)
    for _ in range(tries):
        cw = []; pos = 0; mode = 'A'; ok = True; script = []
        while True:
            if len(cw) > cap: ok = False; break
            if mode == 'A':
                if pos == n: break
                opts = []
                if 'A' in enabled:
                    opts += ['ch']
                    if pos+1 < n and isdig(data[pos]) and isdig(data[pos+1]): opts += ['dig', 'dig']
                opts += [m for m in "CTXEB" if m in enabled]
                a = rng.choice(opts)
                if a == 'ch':
                    ch = data[pos]; pos += 1
                    cw += [ch+1] if ch < 128 else [235, ch-127]
                elif a == 'dig':
                    cw.append(130 + (data[pos]-48)*10 + data[pos+1]-48); pos += 2
                elif a in 'CT':
                    text = a == 'T'; cw.append(239 if text else 230); script.append(a)
                    buf = []
                    while True:
                        rem = cap - len(cw)
                        # end-of-symbol rules
                        if pos == n and not buf:
                            if rem == 0: mode = 'END'; break
                            cw.append(254); mode = 'A'; break
                        if pos == n and len(buf) == 2 and rem == 2:
                            cw += pack3(buf[0], buf[1], 0); mode = 'END'; script.append('ruleb'); break
                        if not buf and pos == n-1 and rem == 1 and data[pos] < 128 and len(c40_values(data[pos], text)) == 1 and rng.random() < .8:
                            cw.append(data[pos]+1); pos += 1; mode = 'END'; script.append('ruled'); break
                        if not buf and pos < n and rng.random() < .25:
                            cw.append(254); mode = 'A'; break
                        if pos == n: ok = False; break      # stuck with partial triple
                        buf += c40_values(data[pos], text); pos += 1
                        while len(buf) >= 3:
                            cw += pack3(*buf[:3]); buf = buf[3:]
                    if not ok: break
                    if mode == 'END': break
                elif a == 'X':
                    cw.append(238); script.append('X')
                    while True:
                        rem = cap - len(cw)
                        if pos == n:
                            if rem == 0: mode = 'END'; break
                            cw.append(254); mode = 'A'; break
                        if pos == n-1 and rem == 1 and data[pos] < 128 and rng.random() < .8:
                            cw.append(data[pos]+1); pos += 1; mode = 'END'; script.append('x12 ruled'); break
                        if pos+2 < n and all(x12_native(c) for c in data[pos:pos+3]) and rng.random() < .8:
                            cw += pack3(*[X12.index(c) for c in data[pos:pos+3]]); pos += 3
                        else:
                            cw.append(254); mode = 'A'; break
                    if mode == 'END': break
                elif a == 'E':
                    cw.append(240); script.append('E')
                    while True:
                        rem = cap - len(cw)
                        if rem <= 2:
                            mode = 'A'; script.append('edf tail'); break   # rest is ascii (implicit)
                        vals = []
                        unl = False
                        while len(vals) < 4:
                            if pos < n and edf_ok(data[pos]) and rng.random() < .85:
                                vals.append(data[pos] & 63); pos += 1
                            else:
                                vals.append(31); unl = True; break
                        if len(vals) == 4 and not unl and pos == n and rem == 3:
                            pass
                        v = vals + [0]*(4-len(vals))
                        bits = (v[0] << 18) | (v[1] << 12) | (v[2] << 6) | v[3]
                        ncw = [0,1,2,3,3][len(vals)]
                        cw += [(bits >> 16) & 255, (bits >> 8) & 255, bits & 255][:ncw]
                        if unl: mode = 'A'; script.append('eunl@%d' % len(vals)); break
                        if pos == n and cap - len(cw) == 0: mode = 'END'; break
                    if mode == 'END': break
                elif a == 'B':
                    start = len(cw); script.append('B')
                    maxL = n - pos
                    if maxL == 0: ok = False; break
                    L = rng.randint(1, maxL)
                    toend = (L == maxL) and (len(cw) + 2 + L == cap) and rng.random() < .9
                    cw.append(231)
                    body = []
                    if toend: body.append(0); script.append('b256 to end')
                    elif L <= 249: body.append(L)
                    else: body += [L // 250 + 249, L % 250]
                    body += list(data[pos:pos+L]); pos += L
                    for b in body: cw.append(rnd255(b, len(cw)+1))
                    if toend: mode = 'END'; break
            if mode == 'END': break
        if not ok or len(cw) > cap: continue
        if mode == 'A' and pos < n: continue
        if len(cw) < cap:
            if mode != 'END' or True:
                cw.append(129)
                while len(cw) < cap: cw.append(r253(len(cw)+1))
        if len(cw) != cap: continue
        return cw, script
    return None
if __name__ == "__main__":
    rng = random.Random(int(sys.argv[1]) if len(sys.argv) > 1 else 1)
    caps = [3,5,8,10,12,16,18,22,30,32,36,44,49,62,86,114,144,174,204,280]
    sigma = b"AZaz09 *>\r!/:@[^_`{\x7f\x00\x1f\x80\xa0\xb0\xe1\xff"
    N = int(sys.argv[2]) if len(sys.argv) > 2 else 20000
    k = 0; selfbad = 0
    while k < N:
        L = rng.choice([0,1,2,3,4,5,6,7,8,9,10,12,14,17,20,25,40,80,260,300])
        style = rng.randrange(5)
        d = bytes(rng.choice(sigma) if style == 0 else rng.choice(b"AB12") if style == 1 else rng.choice(b"ab 1*>") if style == 2 else rng.randrange(256) if style == 3 else rng.choice(b"A1a!\x80") for _ in range(L))
        cap = rng.choice(caps)
        r = gen(d, cap, rng, tries=30)
        if r is None: continue
        cw, script = r
        try:
            o, info = read(cw)
            if o != d: selfbad += 1; print("SELF-MISMATCH", d, cw, o, script, file=sys.stderr)
            if info["lenient"]: print("SELF-LENIENT", d, cw, script, file=sys.stderr)
        except Reject as e:
            selfbad += 1; print("SELF-REJECT", e, d, cw, script, file=sys.stderr)
        print(json.dumps({"input": list(d), "stream": cw, "script": script}))
        k += 1
    print("generated", k, "self-bad", selfbad, file=sys.stderr)
