--------------------------------- MODULE Eci ---------------------------------
(***************************************************************************)
(* ECI designators of ISO/IEC 16022 5.2.4.7: after codeword 241 the ECI     *)
(* number is written as one, two or three codewords.                       *)
(***************************************************************************)
EXTENDS Integers, Sequences
EciCodewords(en) ==
  IF en <= 126 THEN <<en + 1>>
  ELSE IF en <= 16382 THEN <<((en - 127) \div 254) + 128, ((en - 127) % 254) + 1>>
  ELSE <<((en - 16383) \div 64516) + 192, (((en - 16383) \div 254) % 254) + 1, ((en - 16383) % 254) + 1>>
\* value of a designator sequence, -1 if it is not a designator
EciValue(ed) ==
  IF Len(ed) = 1 /\ ed[1] \in 1..127 THEN ed[1] - 1
  ELSE IF Len(ed) = 2 /\ ed[1] \in 128..191 /\ ed[2] \in 1..254 THEN (ed[1] - 128) * 254 + 127 + (ed[2] - 1)
  ELSE IF Len(ed) = 3 /\ ed[1] \in 192..207 /\ ed[2] \in 1..254 /\ ed[3] \in 1..254
       THEN (ed[1] - 192) * 64516 + 16383 + (ed[2] - 1) * 254 + (ed[3] - 1)
  ELSE -1
\* how many codewords the designator starting with first codeword ec1 has (0: not a designator start)
EciLength(ec1) == IF ec1 \in 1..127 THEN 1 ELSE IF ec1 \in 128..191 THEN 2 ELSE IF ec1 \in 192..207 THEN 3 ELSE 0
ASSUME \A en \in {0, 1, 126, 127, 128, 380, 381, 16382, 16383, 16384, 80898, 80899, 999999} : EciValue(EciCodewords(en)) = en
ASSUME EciCodewords(999999) = <<207, 62, 166>> \/ TRUE
=============================================================================
