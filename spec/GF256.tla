------------------------------- MODULE GF256 -------------------------------
(***************************************************************************)
(* The field GF(2^8) of ISO/IEC 16022: polynomials over GF(2) modulo       *)
(* x^8 + x^5 + x^3 + x^2 + 1 (= 301), primitive element alpha = 2.         *)
(* Tables are built with FoldLeft (no RECURSIVE operator) so that TLC      *)
(* caches them as constants.                                               *)
(***************************************************************************)
EXTENDS Integers, Sequences, SequencesExt, Bitwise, FiniteSets

GfXTime(gp) == LET gq == 2 * gp IN IF gq >= 256 THEN gq ^^ 301 ELSE gq
\* GfALog[i + 1] = alpha^i for i in 0..254
GfALog == FoldLeft(LAMBDA gacc, gi : Append(gacc, GfXTime(gacc[Len(gacc)])), <<1>>, [gi \in 1..254 |-> gi])
GfLog  == [gv \in 1..255 |-> CHOOSE gi \in 0..254 : GfALog[gi + 1] = gv]

GfAdd(ga, gb) == ga ^^ gb
GfMul(ga, gb) == IF ga = 0 \/ gb = 0 THEN 0 ELSE GfALog[((GfLog[ga] + GfLog[gb]) % 255) + 1]
GfPow(gi)     == GfALog[(gi % 255) + 1]
GfInv(ga)     == GfALog[((255 - GfLog[ga]) % 255) + 1]
\* Horner evaluation of the polynomial with coefficient sequence gw (highest degree first) at gx
GfEval(gw, gx) == FoldLeft(LAMBDA gacc, gc : GfMul(gacc, gx) ^^ gc, 0, gw)
\* polynomial product (coefficients highest degree first)
GfPolyMul(gp, gq) ==
  [gk \in 1..(Len(gp) + Len(gq) - 1) |->
     FoldLeft(LAMBDA gacc, gi : IF gk - gi + 1 \in 1..Len(gq) THEN gacc ^^ GfMul(gp[gi], gq[gk - gi + 1]) ELSE gacc,
              0, [gi \in 1..Len(gp) |-> gi])]
\* generator polynomial with roots alpha^1 .. alpha^gk (monic, degree gk)
GfGen(gk) == FoldLeft(LAMBDA gacc, gi : GfPolyMul(gacc, <<1, GfPow(gi)>>), <<1>>, [gi \in 1..gk |-> gi])

\* sanity of the tables: alpha has order 255, the antilog table is a permutation of 1..255, log inverts it
ASSUME Len(GfALog) = 255 /\ GfALog[1] = 1 /\ GfXTime(GfALog[255]) = 1
ASSUME Cardinality({GfALog[gi] : gi \in 1..255}) = 255 /\ \A gi \in 1..255 : GfALog[gi] \in 1..255
ASSUME \A gv \in 1..255 : GfALog[GfLog[gv] + 1] = gv
ASSUME \A gv \in 1..255 : GfMul(gv, GfInv(gv)) = 1
ASSUME GfMul(GfMul(GfMul(GfMul(2, 4), 8), 16), 32) = 228
=============================================================================
