CONSTANT MaxIdle = 1
INIT Init
NEXT Next
INVARIANT Emit
CHECK_DEADLOCK FALSE
