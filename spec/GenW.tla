-------------------------------- MODULE GenW --------------------------------
(***************************************************************************)
(* Behaviour generator for C04 (specification -> implementation): every    *)
(* behaviour of the Writer, for the inputs/capacities/prefixes listed in    *)
(* the file IOEnv.INPUTS, is printed as one REPLAY line                      *)
(*   [expect |-> bytes a conformant decoder must return, stream |-> data     *)
(*    codewords]                                                             *)
(* which the harness feeds to the implementation's decode_data/decode_str.  *)
(* Exhaustive (model checking) for short inputs, -simulate for long ones.   *)
(***************************************************************************)
EXTENDS Writer, Json, IOUtils
Inputs == ndJsonDeserialize(IOEnv.INPUTS)
AllModes == {"ascii", "c40", "text", "x12", "edifact", "b256"}
CONSTANT MaxIdle
VARIABLES v_i, v_cap, v_pre, v_wr, v_stream
vars == <<v_i, v_cap, v_pre, v_wr, v_stream>>
D == Inputs[v_i].input
PrefixCw(p) == CASE p = "macro05" -> <<236>> [] p = "macro06" -> <<237>> [] p = "fnc1" -> <<232>> [] OTHER -> <<>>
Expected(p, body) == CASE p = "macro05" -> <<91, 41, 62, 30, 48, 53, 29>> \o body \o <<30, 4>>
                      [] p = "macro06" -> <<91, 41, 62, 30, 48, 54, 29>> \o body \o <<30, 4>>
                      [] OTHER -> body
Init == /\ v_i \in 1..Len(Inputs)
        /\ v_cap \in {Inputs[v_i].caps[k] : k \in 1..Len(Inputs[v_i].caps)}
        /\ v_pre \in {Inputs[v_i].prefixes[k] : k \in 1..Len(Inputs[v_i].prefixes)}
        /\ v_wr = WInit(Len(PrefixCw(v_pre))) /\ v_stream = PrefixCw(v_pre)
Next == /\ ~v_wr.done
        /\ \E s \in Succ(v_wr, D, v_cap, AllModes) :
             /\ WNeed(s[1]) <= v_cap /\ s[1].idle <= MaxIdle
             /\ v_wr' = s[1] /\ v_stream' = v_stream \o s[2]
        /\ UNCHANGED <<v_i, v_cap, v_pre>>
Emit == v_wr.done => PrintT(ToJson([expect |-> Expected(v_pre, D), stream |-> v_stream, i |-> v_i]))
=============================================================================
