------------------------------ MODULE MC_Codec ------------------------------
(***************************************************************************)
(* Product of the reference encoder (Writer.tla) and the reference reader  *)
(* (Stream.tla): for every input over a class alphabet, every capacity and *)
(* every mode set, EVERY behaviour of the Writer is read back by the       *)
(* reader to exactly the input, without using a disabled scheme and with   *)
(* ASCII data only in the end-of-data tail when ASCII is disabled.         *)
(* This is the consistency check of the two oracles against each other     *)
(* (no implementation involved).                                           *)
(***************************************************************************)
EXTENDS Writer, Stream
CONSTANTS MaxLen, Caps, ModeSets, MaxIdle
Sigma == {65, 97, 48, 49, 32, 42, 62, 13, 33, 94, 95, 0, 128, 225}
VARIABLES v_D, v_cap, v_en, v_wr, v_stream, v_rd
vars == <<v_D, v_cap, v_en, v_wr, v_stream, v_rd>>
Init == /\ v_D \in UNION {[1..k -> Sigma] : k \in 0..MaxLen}
        /\ v_cap \in Caps /\ v_en \in ModeSets
        /\ v_wr = WInit(0) /\ v_stream = <<>> /\ v_rd = [RInit EXCEPT !.status = "idle"]
Write == /\ ~v_wr.done
         /\ \E s \in Succ(v_wr, v_D, v_cap, v_en) :
              /\ WNeed(s[1]) <= v_cap /\ s[1].idle <= MaxIdle
              /\ v_wr' = s[1] /\ v_stream' = v_stream \o s[2]
         /\ UNCHANGED <<v_D, v_cap, v_en, v_rd>>
StartRead == /\ v_wr.done /\ v_rd.status = "idle" /\ v_rd' = RInit /\ UNCHANGED <<v_D, v_cap, v_en, v_wr, v_stream>>
Read == /\ v_rd.status = "run" /\ v_rd' = RStep(v_rd, v_stream, v_D, v_en) /\ UNCHANGED <<v_D, v_cap, v_en, v_wr, v_stream>>
Next == Write \/ StartRead \/ Read
\* a finished stream has exactly the capacity
Exact == v_wr.done => Len(v_stream) = v_cap /\ v_wr.pos = Len(v_D) + 1
RoundTrip == v_rd.status \in {"done", "rej"} =>
               /\ v_rd.status = "done" /\ v_rd.ok /\ v_rd.outLen = Len(v_D)
               /\ ~v_rd.disabledLatch /\ TailOK(v_rd, v_en) /\ v_rd.lenient = 0
=============================================================================
