CONSTANTS
  MaxLen = 3
  Caps = {3, 5, 8, 10, 12}
  ModeSets = {{"ascii","c40","text","x12","edifact","b256"}, {"c40","x12"}, {"text","edifact","b256"}, {"edifact"}, {"ascii","b256"}, {"x12","b256"}, {"c40"}}
  MaxIdle = 1
INIT Init
NEXT Next
INVARIANT Exact
INVARIANT RoundTrip
CHECK_DEADLOCK FALSE
