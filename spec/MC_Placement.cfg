SPECIFICATION Spec
INVARIANT NoOverwrite
INVARIANT Complete
PROPERTY Monotone
PROPERTY Terminates
CHECK_DEADLOCK FALSE
