---------------------------- MODULE MC_Placement ----------------------------
(* The Annex F machine, run for each of the 48 mapping-matrix shapes:       *)
(* no module is written twice or outside the matrix, every symbol character *)
(* is placed, exactly the four corner modules of 12x12/16x16/20x20/24x24    *)
(* stay unset.                                                              *)
EXTENDS Placement, TLC
VARIABLES v_sz, v_pst
Init == v_sz \in Names /\ v_pst = PStart(MapRows(v_sz), MapCols(v_sz))
Statement == v_pst.pc # "done" /\ v_pst' = PStep(v_pst) /\ UNCHANGED v_sz
Next == Statement
NoOverwrite == ~v_pst.over
Complete == v_pst.pc = "done" => PComplete(v_pst, Total(v_sz))
Monotone == [][v_pst'.chr >= v_pst.chr /\ \A pi \in DOMAIN v_pst.arr : v_pst.arr[pi] # 0 => v_pst'.arr[pi] = v_pst.arr[pi]]_<<v_sz, v_pst>>
Terminates == <>(v_pst.pc = "done")
Spec == Init /\ [][Next]_<<v_sz, v_pst>> /\ WF_<<v_sz, v_pst>>(Next)
=============================================================================
