CONSTANTS
  PModes = {"a", "b"}
  PMaxIt = 3
INIT PInit
NEXT PNext
INVARIANT PLinear
CHECK_DEADLOCK FALSE
