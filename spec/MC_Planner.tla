---- MODULE MC_Planner ----
EXTENDS Planner
====
