CONSTANT MaxLen = 3
SPECIFICATION Spec
INVARIANT Bounded
INVARIANT StatusOK
PROPERTY Progress
PROPERTY Terminates
CHECK_DEADLOCK FALSE
