------------------------------ MODULE MC_Reader ------------------------------
(***************************************************************************)
(* The reader machine of Stream.tla on ARBITRARY codeword streams (all      *)
(* streams up to length MaxLen over a set of representative codewords:      *)
(* data, digit pair, pad, every latch, FNC1, upper shift, macro, ECI,       *)
(* unlatch, boundary values): it is total (every step is defined), makes    *)
(* progress at every step (the position advances or the reader stops) and   *)
(* therefore terminates within Len + 2 steps, in status "done" or "rej".    *)
(***************************************************************************)
EXTENDS Stream
CONSTANT MaxLen
CW == {0, 1, 66, 128, 129, 130, 229, 230, 231, 232, 233, 235, 236, 238, 239, 240, 241, 242, 254, 255, 31, 124}
AllModes == {"ascii", "c40", "text", "x12", "edifact", "b256"}
VARIABLES v_S, v_rd, v_n
Init == /\ v_S \in UNION {[1..k -> CW] : k \in 0..MaxLen}
        /\ v_rd = RInit /\ v_n = 0
Step == /\ v_rd.status = "run"
        /\ v_rd' = RStep(v_rd, v_S, <<>>, AllModes)
        /\ v_n' = v_n + 1 /\ UNCHANGED v_S
Next == Step
Progress == [][v_rd'.status # "run" \/ v_rd'.pos > v_rd.pos \/ v_rd'.mode # v_rd.mode \/ v_rd'.b256 # v_rd.b256]_<<v_S, v_rd, v_n>>
Bounded == v_n <= 2 * Len(v_S) + 2
StatusOK == v_rd.status \in {"run", "done", "rej"} /\ v_rd.pos \in 1..(Len(v_S) + 1)
Terminates == <>(v_rd.status # "run")
Spec == Init /\ [][Next]_<<v_S, v_rd, v_n>> /\ WF_<<v_S, v_rd, v_n>>(Next)
=============================================================================
