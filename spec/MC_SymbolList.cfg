CONSTANT MaxOps = 2
INIT Init
NEXT Next
INVARIANT Idempotent
INVARIANT Commute
INVARIANT OrderExists
INVARIANT PickMinimal
PROPERTY Shrinks
CHECK_DEADLOCK FALSE
