--------------------------- MODULE MC_SymbolList ---------------------------
(***************************************************************************)
(* The SymbolList machine of Symbols.tla, explored for all lists reachable *)
(* from Default / Extended by at most MaxOps filter actions with bounds at  *)
(* every distinct dimension: filters only shrink the list, are idempotent   *)
(* and commute; a capacity-sorted iteration order exists for every          *)
(* reachable list and FirstBigEnough on it returns a symbol of minimal      *)
(* sufficient capacity (or None exactly when nothing fits).                 *)
(***************************************************************************)
EXTENDS Symbols
CONSTANT MaxOps
VARIABLES s_list, s_ops
Dims == {Sz(n).rows : n \in Names} \cup {Sz(n).cols : n \in Names}
Bounds == {<<"U", 0>>} \cup {<<k, v>> : k \in {"I", "E"}, v \in Dims}
Init == s_list \in {DefaultList, ExtendedList} /\ s_ops = 0
Square == s_list' = EnforceSquare(s_list)
Rect == s_list' = EnforceRect(s_list)
Width == \E lo \in Bounds, hi \in Bounds : s_list' = EnforceWidth(s_list, lo, hi)
Height == \E lo \in Bounds, hi \in Bounds : s_list' = EnforceHeight(s_list, lo, hi)
Next == s_ops < MaxOps /\ s_ops' = s_ops + 1 /\ (Square \/ Rect \/ Width \/ Height)
\* one capacity-sorted order of a list (ties by name index)
SortedOrder(L) == SortSeq(SetToSeq(L), LAMBDA a, b : Cap(a) < Cap(b) \/ (Cap(a) = Cap(b) /\ IdxOf(a) < IdxOf(b)))
Shrinks == [][s_list' \subseteq s_list]_<<s_list, s_ops>>
Idempotent == /\ EnforceSquare(EnforceSquare(s_list)) = EnforceSquare(s_list)
              /\ EnforceRect(EnforceRect(s_list)) = EnforceRect(s_list)
              /\ EnforceSquare(EnforceRect(s_list)) = {}
Commute == \A lo \in {<<"U", 0>>, <<"I", 12>>, <<"E", 16>>}, hi \in {<<"U", 0>>, <<"I", 48>>, <<"E", 64>>} :
             /\ EnforceWidth(EnforceHeight(s_list, lo, hi), lo, hi) = EnforceHeight(EnforceWidth(s_list, lo, hi), lo, hi)
             /\ EnforceSquare(EnforceWidth(s_list, lo, hi)) = EnforceWidth(EnforceSquare(s_list), lo, hi)
OrderExists == IsIterOrder(SortedOrder(s_list), s_list)
PickMinimal == \A n \in {0, 1} \cup {c + d : c \in Caps(s_list), d \in {-1, 0, 1}} :
                 LET pick == FirstBigEnough(SortedOrder(s_list), n) IN
                 IF MinCapFor(s_list, n) < 0 THEN pick = "None" ELSE pick \in s_list /\ Cap(pick) = MinCapFor(s_list, n)
=============================================================================
