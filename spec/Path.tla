-------------------------------- MODULE Path --------------------------------
(***************************************************************************)
(* The pen machine of a vector path (SVG/PDF semantics, relative           *)
(* coordinates): Horizontal(dx), Vertical(dy), Move(dx, dy), Close.        *)
(* State: pen position (x, y), start (sx, sy) of the current sub-path,     *)
(* whether a sub-path is open, and the set of unit vertical edges drawn an *)
(* odd number of times (one 0/1 row per module row: ve[row][column + 1]).  *)
(* With the even-odd rule the module (cx, cy) is filled iff the number of  *)
(* toggled vertical edges on its row at columns <= cx is odd.              *)
(* Step invariants (recorded in `bad`): axis-parallel non-zero segments,   *)
(* never outside [0,w] x [0,h], Move only directly after Close and         *)
(* relative to the start point of the sub-path just closed, no drawing     *)
(* after Close without Move, Close of an open sub-path only along an axis. *)
(***************************************************************************)
EXTENDS Integers, Sequences, SequencesExt

PenInit == [x |-> 0, y |-> 0, sx |-> 0, sy |-> 0, open |-> TRUE, afterClose |-> FALSE, drawn |-> FALSE, bad |-> ""]
EdgesInit(pw, ph) == [yy \in 1..ph |-> [xx \in 1..(pw + 1) |-> 0]]
PInside(pw, ph, px, py) == px >= 0 /\ px <= pw /\ py >= 0 /\ py <= ph
\* toggle the unit vertical edges on column px between py0 and py1
PToggle(ve, px, py0, py1) ==
  LET a == IF py0 < py1 THEN py0 ELSE py1  b == IF py0 < py1 THEN py1 ELSE py0
  IN [yy \in 1..Len(ve) |-> IF yy > a /\ yy <= b THEN [ve[yy] EXCEPT ![px + 1] = 1 - @] ELSE ve[yy]]

\* one segment: returns <<pen', edges'>>
PenStep(pen, ve, seg, pw, ph) ==
  CASE seg[1] = "H" ->
        <<[pen EXCEPT !.x = @ + seg[2], !.afterClose = FALSE, !.drawn = TRUE,
                      !.bad = IF ~pen.open THEN "draw after close" ELSE IF seg[2] = 0 THEN "zero length"
                              ELSE IF ~PInside(pw, ph, pen.x + seg[2], pen.y) THEN "outside" ELSE ""], ve>>
    [] seg[1] = "V" ->
        <<[pen EXCEPT !.y = @ + seg[2], !.afterClose = FALSE, !.drawn = TRUE,
                      !.bad = IF ~pen.open THEN "draw after close" ELSE IF seg[2] = 0 THEN "zero length"
                              ELSE IF ~PInside(pw, ph, pen.x, pen.y + seg[2]) THEN "outside" ELSE ""],
          IF pen.open /\ PInside(pw, ph, pen.x, pen.y + seg[2]) THEN PToggle(ve, pen.x, pen.y, pen.y + seg[2]) ELSE ve>>
    [] seg[1] = "M" ->
        <<[pen EXCEPT !.x = @ + seg[2], !.y = @ + seg[3], !.sx = pen.x + seg[2], !.sy = pen.y + seg[3],
                      !.open = TRUE, !.afterClose = FALSE, !.drawn = FALSE,
                      !.bad = IF ~pen.afterClose THEN "move not after close"
                              ELSE IF ~PInside(pw, ph, pen.x + seg[2], pen.y + seg[3]) THEN "outside" ELSE ""], ve>>
    [] OTHER ->  \* Close: straight line back to the start of the sub-path, pen returns there
        <<[pen EXCEPT !.x = pen.sx, !.y = pen.sy, !.open = FALSE, !.afterClose = TRUE,
                      !.bad = IF ~pen.open THEN "double close"
                              ELSE IF ~pen.drawn THEN "empty sub-path"
                              ELSE IF pen.x # pen.sx /\ pen.y # pen.sy THEN "diagonal close"
                              ELSE IF pen.x = pen.sx /\ pen.y = pen.sy THEN "zero-length close" ELSE ""],
          IF pen.open /\ pen.x = pen.sx THEN PToggle(ve, pen.x, pen.y, pen.sy) ELSE ve>>

\* even-odd fill of row yy equals the bitmap row
PRowFilled(ve, px, pw, yy) ==
  LET par == FoldLeft(LAMBDA acc, xx : <<(acc[1] + ve[yy][xx]) % 2, acc[2] /\ ((acc[1] + ve[yy][xx]) % 2 = px[(yy - 1) * pw + xx])>>,
                      <<0, TRUE>>, [i \in 1..pw |-> i])
  IN par[2] /\ (par[1] + ve[yy][pw + 1]) % 2 = 0
PFilled(ve, px, pw, ph) == \A yy \in 1..ph : PRowFilled(ve, px, pw, yy)

\* the pixel iterator: coordinates (x, y) of the dark modules in row-major order
PixelsExpect(px, pw) == LET idx == SelectSeq([i \in 1..Len(px) |-> i], LAMBDA i : px[i] = 1)
                        IN [k \in 1..Len(idx) |-> <<(idx[k] - 1) % pw, (idx[k] - 1) \div pw>>]
\* Unicode block rendering with a one-module light border, two module rows per text line
UnicodeExpect(px, pw, ph) ==
  LET get(r, c) == IF r < 1 \/ r > ph \/ c < 1 \/ c > pw THEN 0 ELSE px[(r - 1) * pw + c]      \* r, c: 1-based module, 0 = border
      glyph(t, b) == IF t = 0 /\ b = 0 THEN 32 ELSE IF t = 0 THEN 9604 ELSE IF b = 0 THEN 9600 ELSE 9608
      nlines == (ph + 2 + 1) \div 2
      line(k) == [c \in 1..(pw + 2) |-> glyph(get(2 * k - 2, c - 1), get(2 * k - 1, c - 1))] \o <<10>>
  IN FoldLeft(LAMBDA acc, k : acc \o line(k), <<>>, [k \in 1..nlines |-> k])
=============================================================================
