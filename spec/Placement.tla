----------------------------- MODULE Placement -----------------------------
(***************************************************************************)
(* ISO/IEC 16022 Annex F (ECC 200 symbol character placement), with the    *)
(* additional row wrap of ISO/IEC 21471, as a state machine whose          *)
(* variables are literally those of the standard's program: row, col, chr  *)
(* and the array.  One step of PStep is one of the program's statements:   *)
(* the corner tests ("top"), one position of the upward sweep ("up"), one  *)
(* position of the downward sweep ("down").  A step places zero or more    *)
(* symbol characters; the placements of the last step are kept in `placed` *)
(* as <<character number, <<8 cell indices, bit 1 (MSB) first>>>>.          *)
(* Cells are numbered row-major from 0 inside the mapping matrix.          *)
(***************************************************************************)
EXTENDS Integers, Sequences, SequencesExt, FiniteSets, Symbols

\* the module() procedure of Annex F: wrap-around of negative rows/columns; ISO 21471: rows >= nrow wrap too
PCell(nrow, ncol, r0, c0) ==
  LET r1 == IF r0 < 0 THEN r0 + nrow ELSE r0
      c1 == IF r0 < 0 THEN c0 + 4 - ((nrow + 4) % 8) ELSE c0
      c2 == IF c1 < 0 THEN c1 + ncol ELSE c1
      r2 == IF c1 < 0 THEN r1 + 4 - ((ncol + 4) % 8) ELSE r1
      r3 == IF r2 >= nrow THEN r2 - nrow ELSE r2
  IN r3 * ncol + c2

PUtahCells(nrow, ncol, r, c) ==
  << PCell(nrow, ncol, r - 2, c - 2), PCell(nrow, ncol, r - 2, c - 1), PCell(nrow, ncol, r - 1, c - 2),
     PCell(nrow, ncol, r - 1, c - 1), PCell(nrow, ncol, r - 1, c), PCell(nrow, ncol, r, c - 2),
     PCell(nrow, ncol, r, c - 1), PCell(nrow, ncol, r, c) >>
PCorner1(nrow, ncol) ==
  << PCell(nrow, ncol, nrow - 1, 0), PCell(nrow, ncol, nrow - 1, 1), PCell(nrow, ncol, nrow - 1, 2),
     PCell(nrow, ncol, 0, ncol - 2), PCell(nrow, ncol, 0, ncol - 1), PCell(nrow, ncol, 1, ncol - 1),
     PCell(nrow, ncol, 2, ncol - 1), PCell(nrow, ncol, 3, ncol - 1) >>
PCorner2(nrow, ncol) ==
  << PCell(nrow, ncol, nrow - 3, 0), PCell(nrow, ncol, nrow - 2, 0), PCell(nrow, ncol, nrow - 1, 0),
     PCell(nrow, ncol, 0, ncol - 4), PCell(nrow, ncol, 0, ncol - 3), PCell(nrow, ncol, 0, ncol - 2),
     PCell(nrow, ncol, 0, ncol - 1), PCell(nrow, ncol, 1, ncol - 1) >>
PCorner3(nrow, ncol) ==
  << PCell(nrow, ncol, nrow - 3, 0), PCell(nrow, ncol, nrow - 2, 0), PCell(nrow, ncol, nrow - 1, 0),
     PCell(nrow, ncol, 0, ncol - 2), PCell(nrow, ncol, 0, ncol - 1), PCell(nrow, ncol, 1, ncol - 1),
     PCell(nrow, ncol, 2, ncol - 1), PCell(nrow, ncol, 3, ncol - 1) >>
PCorner4(nrow, ncol) ==
  << PCell(nrow, ncol, nrow - 1, 0), PCell(nrow, ncol, nrow - 1, ncol - 1), PCell(nrow, ncol, 0, ncol - 3),
     PCell(nrow, ncol, 0, ncol - 2), PCell(nrow, ncol, 0, ncol - 1), PCell(nrow, ncol, 1, ncol - 3),
     PCell(nrow, ncol, 1, ncol - 2), PCell(nrow, ncol, 1, ncol - 1) >>

\* place symbol character pst.chr on the given eight cells (array entry: chr * 10 + bit, 0 = unset)
PPlace(pst, cells) ==
  [pst EXCEPT !.arr = [@ EXCEPT ![cells[1] + 1] = pst.chr * 10 + 1, ![cells[2] + 1] = pst.chr * 10 + 2,
                                ![cells[3] + 1] = pst.chr * 10 + 3, ![cells[4] + 1] = pst.chr * 10 + 4,
                                ![cells[5] + 1] = pst.chr * 10 + 5, ![cells[6] + 1] = pst.chr * 10 + 6,
                                ![cells[7] + 1] = pst.chr * 10 + 7, ![cells[8] + 1] = pst.chr * 10 + 8],
              !.over = @ \/ \E pb \in 1..8 : cells[pb] \notin 0..(pst.nrow * pst.ncol - 1) \/ pst.arr[cells[pb] + 1] # 0,
              !.placed = Append(@, <<pst.chr, cells>>),
              !.chr = @ + 1]

PStart(nrow, ncol) ==
  [nrow |-> nrow, ncol |-> ncol, row |-> 4, col |-> 0, chr |-> 1, pc |-> "top",
   arr |-> [pi \in 1..(nrow * ncol) |-> 0], placed |-> <<>>, over |-> FALSE]

PStep(pst0) ==
  LET pst == [pst0 EXCEPT !.placed = <<>>]
      nrow == pst.nrow  ncol == pst.ncol  r == pst.row  c == pst.col IN
  CASE pst.pc = "top" ->
        LET s1 == IF r = nrow /\ c = 0 THEN PPlace(pst, PCorner1(nrow, ncol)) ELSE pst
            s2 == IF r = nrow - 2 /\ c = 0 /\ ncol % 4 # 0 THEN PPlace(s1, PCorner2(nrow, ncol)) ELSE s1
            s3 == IF r = nrow - 2 /\ c = 0 /\ ncol % 8 = 4 THEN PPlace(s2, PCorner3(nrow, ncol)) ELSE s2
            s4 == IF r = nrow + 4 /\ c = 2 /\ ncol % 8 = 0 THEN PPlace(s3, PCorner4(nrow, ncol)) ELSE s3
        IN [s4 EXCEPT !.pc = "up"]
    [] pst.pc = "up" ->
        LET s1 == IF r < nrow /\ c >= 0 /\ pst.arr[r * ncol + c + 1] = 0 THEN PPlace(pst, PUtahCells(nrow, ncol, r, c)) ELSE pst
            r2 == r - 2  c2 == c + 2
        IN IF r2 >= 0 /\ c2 < ncol THEN [s1 EXCEPT !.row = r2, !.col = c2]
           ELSE [s1 EXCEPT !.row = r2 + 1, !.col = c2 + 3, !.pc = "down"]
    [] pst.pc = "down" ->
        LET s1 == IF r >= 0 /\ c < ncol /\ pst.arr[r * ncol + c + 1] = 0 THEN PPlace(pst, PUtahCells(nrow, ncol, r, c)) ELSE pst
            r2 == r + 2  c2 == c - 2
        IN IF r2 < nrow /\ c2 >= 0 THEN [s1 EXCEPT !.row = r2, !.col = c2]
           ELSE LET r3 == r2 + 3  c3 == c2 + 1 IN
                [s1 EXCEPT !.row = r3, !.col = c3, !.pc = IF r3 < nrow \/ c3 < ncol THEN "top" ELSE "done"]
    [] OTHER -> pst

\* functional form: the complete array of a mapping matrix (at most nrow*ncol statements are needed)
PRun(nrow, ncol) ==
  FoldLeft(LAMBDA pst, pi : IF pst.pc = "done" THEN pst ELSE PStep(pst), PStart(nrow, ncol), [pi \in 1..(nrow * ncol) |-> pi])
PlacementOf(sz) == PRun(MapRows(sz), MapCols(sz)).arr

\* design invariants of the machine (checked by MC_Placement for all 48 shapes)
PUnset(pst) == {pi \in 1..(pst.nrow * pst.ncol) : pst.arr[pi] = 0}
PCornerCells(nrow, ncol) == {(nrow - 2) * ncol + (ncol - 2) + 1, (nrow - 2) * ncol + (ncol - 1) + 1,
                             (nrow - 1) * ncol + (ncol - 2) + 1, (nrow - 1) * ncol + (ncol - 1) + 1}
PComplete(pst, total) ==
  /\ pst.chr - 1 = total
  /\ ~pst.over
  /\ PUnset(pst) = (IF pst.nrow * pst.ncol = 8 * total THEN {} ELSE PCornerCells(pst.nrow, pst.ncol))
  /\ {pst.arr[pi] : pi \in 1..(pst.nrow * pst.ncol)} \ {0} = {pk * 10 + pb : pk \in 1..total, pb \in 1..8}
=============================================================================
