------------------------------ MODULE Planner ------------------------------
(***************************************************************************)
(* The frontier machine of the encodation planner ("one candidate plan per *)
(* (start mode, current mode), stepped one character at a time"):          *)
(*   alive   set of (start mode, current mode) pairs of the live plans     *)
(*   it      number of input characters processed                          *)
(*   steps   number of candidate-plan steps executed so far                *)
(* One Iterate action = every live plan steps once, some of them try a     *)
(* switch to each of the other modes (one step per tried mode), then the   *)
(* frontier is pruned to at most one plan per pair.                        *)
(* The design bound: steps grows at most linearly, |alive| <= |Modes|^2.   *)
(***************************************************************************)
EXTENDS Integers, FiniteSets
CONSTANTS PModes, PMaxIt
VARIABLES p_alive, p_it, p_steps
PPairs == PModes \X PModes
PerIteration == Cardinality(PPairs) + Cardinality(PPairs) * (Cardinality(PModes) - 1)
PInit == /\ p_alive \in {{<<m, m>>} : m \in PModes} \cup {{<<m, m>> : m \in ms} : ms \in (SUBSET PModes) \ {{}}}
         /\ p_it = 0 /\ p_steps = Cardinality(PModes)
PIterate ==
  /\ p_it < PMaxIt
  /\ \E callers \in SUBSET p_alive, survivors \in SUBSET p_alive :
       \E spawned \in SUBSET {<<pr[1], m>> : pr \in callers, m \in PModes} :
         \E pruned \in SUBSET (survivors \cup spawned) :
           /\ p_alive' = pruned
           /\ p_steps' = p_steps + Cardinality(p_alive) + (Cardinality(PModes) - 1) * Cardinality(callers)
  /\ p_it' = p_it + 1
PNext == PIterate
PLinear == p_steps <= PerIteration * p_it + Cardinality(PModes) /\ Cardinality(p_alive) <= Cardinality(PPairs)
PSpec == PInit /\ [][PNext]_<<p_alive, p_it, p_steps>>
=============================================================================
