---------------------------- MODULE PlannerApa ----------------------------
(* The frontier machine of Planner.tla with Apalache type annotations and an inductive invariant: the linear work
   bound holds for ANY number of iterations (TLC checks it only up to PMaxIt). *)
EXTENDS Integers, FiniteSets
VARIABLES
  \* @type: Set(<<Int, Int>>);
  p_alive,
  \* @type: Int;
  p_it,
  \* @type: Int;
  p_steps
PModes == 1..6
PPairs == PModes \X PModes
PerIteration == 36 + 36 * 5
PInit == /\ p_alive \in SUBSET {<<1, 1>>, <<2, 2>>, <<3, 3>>, <<4, 4>>, <<5, 5>>, <<6, 6>>}
         /\ p_it = 0 /\ p_steps = 6
PNext ==
  /\ \E callers \in SUBSET p_alive, pruned \in SUBSET PPairs :
       /\ p_alive' = pruned
       /\ p_steps' = p_steps + Cardinality(p_alive) + 5 * Cardinality(callers)
  /\ p_it' = p_it + 1
\* the inductive invariant as an initial condition (every variable assigned, integers from a generous range)
IndInit == /\ p_alive \in SUBSET PPairs
           /\ p_it \in 0..1000000
           /\ p_steps \in 0..300000000
           /\ p_steps <= PerIteration * p_it + 6
IndInv == /\ p_alive \in SUBSET PPairs /\ p_it >= 0
          /\ p_steps <= PerIteration * p_it + 6
=============================================================================
