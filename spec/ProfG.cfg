INIT Init
NEXT Next
