---- MODULE ProfG ----
EXTENDS Trace_Geom
C1 == Cases[1]
A1 == GTab["Square144"].arr
ASSUME PrintT(<<"start", TLCGet("duration")>>)
ASSUME \A i \in 1..300 : GTab["Square144"].arr[i] >= 0
ASSUME PrintT(<<"arr300", TLCGet("duration")>>)
ASSUME \A i \in 1..300 : C1.cw[i] >= 0
ASSUME PrintT(<<"cw300", TLCGet("duration")>>)
ASSUME \A i \in 2..300 : Len(C1.events[i + 2].flips) >= 0
ASSUME PrintT(<<"events300", TLCGet("duration")>>)
ASSUME \A i \in 1..300 : RKind("Square144", i % 32, 5) # "x" /\ RCellOf("Square144", 5, 5) > 0
ASSUME PrintT(<<"rkind300", TLCGet("duration")>>)
ASSUME \A i \in 3..300 : C1.events[i].parse.kind # "x" 
ASSUME PrintT(<<"parse300", TLCGet("duration")>>)
====
