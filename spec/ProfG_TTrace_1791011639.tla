---- MODULE ProfG_TTrace_1791011639 ----
EXTENDS Sequences, ProfG, TLCExt, Toolbox, Naturals, TLC

_expression ==
    LET ProfG_TEExpression == INSTANCE ProfG_TEExpression
    IN ProfG_TEExpression!expression
----

_trace ==
    LET ProfG_TETrace == INSTANCE ProfG_TETrace
    IN ProfG_TETrace!trace
----

_inv ==
    ~(
        TLCGet("level") = Len(_TETrace)
        /\
        v_l = (450)
        /\
        v_fails = ({})
        /\
        v_c = (1)
    )
----

_init ==
    /\ v_c = _TETrace[1].v_c
    /\ v_l = _TETrace[1].v_l
    /\ v_fails = _TETrace[1].v_fails
----

_next ==
    /\ \E i,j \in DOMAIN _TETrace:
        /\ \/ /\ j = i + 1
              /\ i = TLCGet("level")
        /\ v_c  = _TETrace[i].v_c
        /\ v_c' = _TETrace[j].v_c
        /\ v_l  = _TETrace[i].v_l
        /\ v_l' = _TETrace[j].v_l
        /\ v_fails  = _TETrace[i].v_fails
        /\ v_fails' = _TETrace[j].v_fails

\* Uncomment the ASSUME below to write the states of the error trace
\* to the given file in Json format. Note that you can pass any tuple
\* to `JsonSerialize`. For example, a sub-sequence of _TETrace.
    \* ASSUME
    \*     LET J == INSTANCE Json
    \*         IN J!JsonSerialize("ProfG_TTrace_1791011639.json", _TETrace)

=============================================================================

 Note that you can extract this module `ProfG_TEExpression`
  to a dedicated file to reuse `expression` (the module in the 
  dedicated `ProfG_TEExpression.tla` file takes precedence 
  over the module `ProfG_TEExpression` below).

---- MODULE ProfG_TEExpression ----
EXTENDS Sequences, ProfG, TLCExt, Toolbox, Naturals, TLC

expression == 
    [
        \* To hide variables of the `ProfG` spec from the error trace,
        \* remove the variables below.  The trace will be written in the order
        \* of the fields of this record.
        v_c |-> v_c
        ,v_l |-> v_l
        ,v_fails |-> v_fails
        
        \* Put additional constant-, state-, and action-level expressions here:
        \* ,_stateNumber |-> _TEPosition
        \* ,_v_cUnchanged |-> v_c = v_c'
        
        \* Format the `v_c` variable as Json value.
        \* ,_v_cJson |->
        \*     LET J == INSTANCE Json
        \*     IN J!ToJson(v_c)
        
        \* Lastly, you may build expressions over arbitrary sets of states by
        \* leveraging the _TETrace operator.  For example, this is how to
        \* count the number of times a spec variable changed up to the current
        \* state in the trace.
        \* ,_v_cModCount |->
        \*     LET F[s \in DOMAIN _TETrace] ==
        \*         IF s = 1 THEN 0
        \*         ELSE IF _TETrace[s].v_c # _TETrace[s-1].v_c
        \*             THEN 1 + F[s-1] ELSE F[s-1]
        \*     IN F[_TEPosition - 1]
    ]

=============================================================================



Parsing and semantic processing can take forever if the trace below is long.
 In this case, it is advised to uncomment the module below to deserialize the
 trace from a generated binary file.

\*
\*---- MODULE ProfG_TETrace ----
\*EXTENDS IOUtils, ProfG, TLC
\*
\*trace == IODeserialize("ProfG_TTrace_1791011639.bin", TRUE)
\*
\*=============================================================================
\*

---- MODULE ProfG_TETrace ----
EXTENDS ProfG, TLC

trace == 
    <<
    ([v_l |-> 1,v_fails |-> {},v_c |-> 1]),
    ([v_l |-> 2,v_fails |-> {},v_c |-> 1]),
    ([v_l |-> 3,v_fails |-> {},v_c |-> 1]),
    ([v_l |-> 4,v_fails |-> {},v_c |-> 1]),
    ([v_l |-> 5,v_fails |-> {},v_c |-> 1]),
    ([v_l |-> 6,v_fails |-> {},v_c |-> 1]),
    ([v_l |-> 7,v_fails |-> {},v_c |-> 1]),
    ([v_l |-> 8,v_fails |-> {},v_c |-> 1]),
    ([v_l |-> 9,v_fails |-> {},v_c |-> 1]),
    ([v_l |-> 10,v_fails |-> {},v_c |-> 1]),
    ([v_l |-> 11,v_fails |-> {},v_c |-> 1]),
    ([v_l |-> 12,v_fails |-> {},v_c |-> 1]),
    ([v_l |-> 13,v_fails |-> {},v_c |-> 1]),
    ([v_l |-> 14,v_fails |-> {},v_c |-> 1]),
    ([v_l |-> 15,v_fails |-> {},v_c |-> 1]),
    ([v_l |-> 16,v_fails |-> {},v_c |-> 1]),
    ([v_l |-> 17,v_fails |-> {},v_c |-> 1]),
    ([v_l |-> 18,v_fails |-> {},v_c |-> 1]),
    ([v_l |-> 19,v_fails |-> {},v_c |-> 1]),
    ([v_l |-> 20,v_fails |-> {},v_c |-> 1]),
    ([v_l |-> 21,v_fails |-> {},v_c |-> 1]),
    ([v_l |-> 22,v_fails |-> {},v_c |-> 1]),
    ([v_l |-> 23,v_fails |-> {},v_c |-> 1]),
    ([v_l |-> 24,v_fails |-> {},v_c |-> 1]),
    ([v_l |-> 25,v_fails |-> {},v_c |-> 1]),
    ([v_l |-> 26,v_fails |-> {},v_c |-> 1]),
    ([v_l |-> 27,v_fails |-> {},v_c |-> 1]),
    ([v_l |-> 28,v_fails |-> {},v_c |-> 1]),
    ([v_l |-> 29,v_fails |-> {},v_c |-> 1]),
    ([v_l |-> 30,v_fails |-> {},v_c |-> 1]),
    ([v_l |-> 31,v_fails |-> {},v_c |-> 1]),
    ([v_l |-> 32,v_fails |-> {},v_c |-> 1]),
    ([v_l |-> 33,v_fails |-> {},v_c |-> 1]),
    ([v_l |-> 34,v_fails |-> {},v_c |-> 1]),
    ([v_l |-> 35,v_fails |-> {},v_c |-> 1]),
    ([v_l |-> 36,v_fails |-> {},v_c |-> 1]),
    ([v_l |-> 37,v_fails |-> {},v_c |-> 1]),
    ([v_l |-> 38,v_fails |-> {},v_c |-> 1]),
    ([v_l |-> 39,v_fails |-> {},v_c |-> 1]),
    ([v_l |-> 40,v_fails |-> {},v_c |-> 1]),
    ([v_l |-> 41,v_fails |-> {},v_c |-> 1]),
    ([v_l |-> 42,v_fails |-> {},v_c |-> 1]),
    ([v_l |-> 43,v_fails |-> {},v_c |-> 1]),
    ([v_l |-> 44,v_fails |-> {},v_c |-> 1]),
    ([v_l |-> 45,v_fails |-> {},v_c |-> 1]),
    ([v_l |-> 46,v_fails |-> {},v_c |-> 1]),
    ([v_l |-> 47,v_fails |-> {},v_c |-> 1]),
    ([v_l |-> 48,v_fails |-> {},v_c |-> 1]),
    ([v_l |-> 49,v_fails |-> {},v_c |-> 1]),
    ([v_l |-> 50,v_fails |-> {},v_c |-> 1]),
    ([v_l |-> 51,v_fails |-> {},v_c |-> 1]),
    ([v_l |-> 52,v_fails |-> {},v_c |-> 1]),
    ([v_l |-> 53,v_fails |-> {},v_c |-> 1]),
    ([v_l |-> 54,v_fails |-> {},v_c |-> 1]),
    ([v_l |-> 55,v_fails |-> {},v_c |-> 1]),
    ([v_l |-> 56,v_fails |-> {},v_c |-> 1]),
    ([v_l |-> 57,v_fails |-> {},v_c |-> 1]),
    ([v_l |-> 58,v_fails |-> {},v_c |-> 1]),
    ([v_l |-> 59,v_fails |-> {},v_c |-> 1]),
    ([v_l |-> 60,v_fails |-> {},v_c |-> 1]),
    ([v_l |-> 61,v_fails |-> {},v_c |-> 1]),
    ([v_l |-> 62,v_fails |-> {},v_c |-> 1]),
    ([v_l |-> 63,v_fails |-> {},v_c |-> 1]),
    ([v_l |-> 64,v_fails |-> {},v_c |-> 1]),
    ([v_l |-> 65,v_fails |-> {},v_c |-> 1]),
    ([v_l |-> 66,v_fails |-> {},v_c |-> 1]),
    ([v_l |-> 67,v_fails |-> {},v_c |-> 1]),
    ([v_l |-> 68,v_fails |-> {},v_c |-> 1]),
    ([v_l |-> 69,v_fails |-> {},v_c |-> 1]),
    ([v_l |-> 70,v_fails |-> {},v_c |-> 1]),
    ([v_l |-> 71,v_fails |-> {},v_c |-> 1]),
    ([v_l |-> 72,v_fails |-> {},v_c |-> 1]),
    ([v_l |-> 73,v_fails |-> {},v_c |-> 1]),
    ([v_l |-> 74,v_fails |-> {},v_c |-> 1]),
    ([v_l |-> 75,v_fails |-> {},v_c |-> 1]),
    ([v_l |-> 76,v_fails |-> {},v_c |-> 1]),
    ([v_l |-> 77,v_fails |-> {},v_c |-> 1]),
    ([v_l |-> 78,v_fails |-> {},v_c |-> 1]),
    ([v_l |-> 79,v_fails |-> {},v_c |-> 1]),
    ([v_l |-> 80,v_fails |-> {},v_c |-> 1]),
    ([v_l |-> 81,v_fails |-> {},v_c |-> 1]),
    ([v_l |-> 82,v_fails |-> {},v_c |-> 1]),
    ([v_l |-> 83,v_fails |-> {},v_c |-> 1]),
    ([v_l |-> 84,v_fails |-> {},v_c |-> 1]),
    ([v_l |-> 85,v_fails |-> {},v_c |-> 1]),
    ([v_l |-> 86,v_fails |-> {},v_c |-> 1]),
    ([v_l |-> 87,v_fails |-> {},v_c |-> 1]),
    ([v_l |-> 88,v_fails |-> {},v_c |-> 1]),
    ([v_l |-> 89,v_fails |-> {},v_c |-> 1]),
    ([v_l |-> 90,v_fails |-> {},v_c |-> 1]),
    ([v_l |-> 91,v_fails |-> {},v_c |-> 1]),
    ([v_l |-> 92,v_fails |-> {},v_c |-> 1]),
    ([v_l |-> 93,v_fails |-> {},v_c |-> 1]),
    ([v_l |-> 94,v_fails |-> {},v_c |-> 1]),
    ([v_l |-> 95,v_fails |-> {},v_c |-> 1]),
    ([v_l |-> 96,v_fails |-> {},v_c |-> 1]),
    ([v_l |-> 97,v_fails |-> {},v_c |-> 1]),
    ([v_l |-> 98,v_fails |-> {},v_c |-> 1]),
    ([v_l |-> 99,v_fails |-> {},v_c |-> 1]),
    ([v_l |-> 100,v_fails |-> {},v_c |-> 1]),
    ([v_l |-> 101,v_fails |-> {},v_c |-> 1]),
    ([v_l |-> 102,v_fails |-> {},v_c |-> 1]),
    ([v_l |-> 103,v_fails |-> {},v_c |-> 1]),
    ([v_l |-> 104,v_fails |-> {},v_c |-> 1]),
    ([v_l |-> 105,v_fails |-> {},v_c |-> 1]),
    ([v_l |-> 106,v_fails |-> {},v_c |-> 1]),
    ([v_l |-> 107,v_fails |-> {},v_c |-> 1]),
    ([v_l |-> 108,v_fails |-> {},v_c |-> 1]),
    ([v_l |-> 109,v_fails |-> {},v_c |-> 1]),
    ([v_l |-> 110,v_fails |-> {},v_c |-> 1]),
    ([v_l |-> 111,v_fails |-> {},v_c |-> 1]),
    ([v_l |-> 112,v_fails |-> {},v_c |-> 1]),
    ([v_l |-> 113,v_fails |-> {},v_c |-> 1]),
    ([v_l |-> 114,v_fails |-> {},v_c |-> 1]),
    ([v_l |-> 115,v_fails |-> {},v_c |-> 1]),
    ([v_l |-> 116,v_fails |-> {},v_c |-> 1]),
    ([v_l |-> 117,v_fails |-> {},v_c |-> 1]),
    ([v_l |-> 118,v_fails |-> {},v_c |-> 1]),
    ([v_l |-> 119,v_fails |-> {},v_c |-> 1]),
    ([v_l |-> 120,v_fails |-> {},v_c |-> 1]),
    ([v_l |-> 121,v_fails |-> {},v_c |-> 1]),
    ([v_l |-> 122,v_fails |-> {},v_c |-> 1]),
    ([v_l |-> 123,v_fails |-> {},v_c |-> 1]),
    ([v_l |-> 124,v_fails |-> {},v_c |-> 1]),
    ([v_l |-> 125,v_fails |-> {},v_c |-> 1]),
    ([v_l |-> 126,v_fails |-> {},v_c |-> 1]),
    ([v_l |-> 127,v_fails |-> {},v_c |-> 1]),
    ([v_l |-> 128,v_fails |-> {},v_c |-> 1]),
    ([v_l |-> 129,v_fails |-> {},v_c |-> 1]),
    ([v_l |-> 130,v_fails |-> {},v_c |-> 1]),
    ([v_l |-> 131,v_fails |-> {},v_c |-> 1]),
    ([v_l |-> 132,v_fails |-> {},v_c |-> 1]),
    ([v_l |-> 133,v_fails |-> {},v_c |-> 1]),
    ([v_l |-> 134,v_fails |-> {},v_c |-> 1]),
    ([v_l |-> 135,v_fails |-> {},v_c |-> 1]),
    ([v_l |-> 136,v_fails |-> {},v_c |-> 1]),
    ([v_l |-> 137,v_fails |-> {},v_c |-> 1]),
    ([v_l |-> 138,v_fails |-> {},v_c |-> 1]),
    ([v_l |-> 139,v_fails |-> {},v_c |-> 1]),
    ([v_l |-> 140,v_fails |-> {},v_c |-> 1]),
    ([v_l |-> 141,v_fails |-> {},v_c |-> 1]),
    ([v_l |-> 142,v_fails |-> {},v_c |-> 1]),
    ([v_l |-> 143,v_fails |-> {},v_c |-> 1]),
    ([v_l |-> 144,v_fails |-> {},v_c |-> 1]),
    ([v_l |-> 145,v_fails |-> {},v_c |-> 1]),
    ([v_l |-> 146,v_fails |-> {},v_c |-> 1]),
    ([v_l |-> 147,v_fails |-> {},v_c |-> 1]),
    ([v_l |-> 148,v_fails |-> {},v_c |-> 1]),
    ([v_l |-> 149,v_fails |-> {},v_c |-> 1]),
    ([v_l |-> 150,v_fails |-> {},v_c |-> 1]),
    ([v_l |-> 151,v_fails |-> {},v_c |-> 1]),
    ([v_l |-> 152,v_fails |-> {},v_c |-> 1]),
    ([v_l |-> 153,v_fails |-> {},v_c |-> 1]),
    ([v_l |-> 154,v_fails |-> {},v_c |-> 1]),
    ([v_l |-> 155,v_fails |-> {},v_c |-> 1]),
    ([v_l |-> 156,v_fails |-> {},v_c |-> 1]),
    ([v_l |-> 157,v_fails |-> {},v_c |-> 1]),
    ([v_l |-> 158,v_fails |-> {},v_c |-> 1]),
    ([v_l |-> 159,v_fails |-> {},v_c |-> 1]),
    ([v_l |-> 160,v_fails |-> {},v_c |-> 1]),
    ([v_l |-> 161,v_fails |-> {},v_c |-> 1]),
    ([v_l |-> 162,v_fails |-> {},v_c |-> 1]),
    ([v_l |-> 163,v_fails |-> {},v_c |-> 1]),
    ([v_l |-> 164,v_fails |-> {},v_c |-> 1]),
    ([v_l |-> 165,v_fails |-> {},v_c |-> 1]),
    ([v_l |-> 166,v_fails |-> {},v_c |-> 1]),
    ([v_l |-> 167,v_fails |-> {},v_c |-> 1]),
    ([v_l |-> 168,v_fails |-> {},v_c |-> 1]),
    ([v_l |-> 169,v_fails |-> {},v_c |-> 1]),
    ([v_l |-> 170,v_fails |-> {},v_c |-> 1]),
    ([v_l |-> 171,v_fails |-> {},v_c |-> 1]),
    ([v_l |-> 172,v_fails |-> {},v_c |-> 1]),
    ([v_l |-> 173,v_fails |-> {},v_c |-> 1]),
    ([v_l |-> 174,v_fails |-> {},v_c |-> 1]),
    ([v_l |-> 175,v_fails |-> {},v_c |-> 1]),
    ([v_l |-> 176,v_fails |-> {},v_c |-> 1]),
    ([v_l |-> 177,v_fails |-> {},v_c |-> 1]),
    ([v_l |-> 178,v_fails |-> {},v_c |-> 1]),
    ([v_l |-> 179,v_fails |-> {},v_c |-> 1]),
    ([v_l |-> 180,v_fails |-> {},v_c |-> 1]),
    ([v_l |-> 181,v_fails |-> {},v_c |-> 1]),
    ([v_l |-> 182,v_fails |-> {},v_c |-> 1]),
    ([v_l |-> 183,v_fails |-> {},v_c |-> 1]),
    ([v_l |-> 184,v_fails |-> {},v_c |-> 1]),
    ([v_l |-> 185,v_fails |-> {},v_c |-> 1]),
    ([v_l |-> 186,v_fails |-> {},v_c |-> 1]),
    ([v_l |-> 187,v_fails |-> {},v_c |-> 1]),
    ([v_l |-> 188,v_fails |-> {},v_c |-> 1]),
    ([v_l |-> 189,v_fails |-> {},v_c |-> 1]),
    ([v_l |-> 190,v_fails |-> {},v_c |-> 1]),
    ([v_l |-> 191,v_fails |-> {},v_c |-> 1]),
    ([v_l |-> 192,v_fails |-> {},v_c |-> 1]),
    ([v_l |-> 193,v_fails |-> {},v_c |-> 1]),
    ([v_l |-> 194,v_fails |-> {},v_c |-> 1]),
    ([v_l |-> 195,v_fails |-> {},v_c |-> 1]),
    ([v_l |-> 196,v_fails |-> {},v_c |-> 1]),
    ([v_l |-> 197,v_fails |-> {},v_c |-> 1]),
    ([v_l |-> 198,v_fails |-> {},v_c |-> 1]),
    ([v_l |-> 199,v_fails |-> {},v_c |-> 1]),
    ([v_l |-> 200,v_fails |-> {},v_c |-> 1]),
    ([v_l |-> 201,v_fails |-> {},v_c |-> 1]),
    ([v_l |-> 202,v_fails |-> {},v_c |-> 1]),
    ([v_l |-> 203,v_fails |-> {},v_c |-> 1]),
    ([v_l |-> 204,v_fails |-> {},v_c |-> 1]),
    ([v_l |-> 205,v_fails |-> {},v_c |-> 1]),
    ([v_l |-> 206,v_fails |-> {},v_c |-> 1]),
    ([v_l |-> 207,v_fails |-> {},v_c |-> 1]),
    ([v_l |-> 208,v_fails |-> {},v_c |-> 1]),
    ([v_l |-> 209,v_fails |-> {},v_c |-> 1]),
    ([v_l |-> 210,v_fails |-> {},v_c |-> 1]),
    ([v_l |-> 211,v_fails |-> {},v_c |-> 1]),
    ([v_l |-> 212,v_fails |-> {},v_c |-> 1]),
    ([v_l |-> 213,v_fails |-> {},v_c |-> 1]),
    ([v_l |-> 214,v_fails |-> {},v_c |-> 1]),
    ([v_l |-> 215,v_fails |-> {},v_c |-> 1]),
    ([v_l |-> 216,v_fails |-> {},v_c |-> 1]),
    ([v_l |-> 217,v_fails |-> {},v_c |-> 1]),
    ([v_l |-> 218,v_fails |-> {},v_c |-> 1]),
    ([v_l |-> 219,v_fails |-> {},v_c |-> 1]),
    ([v_l |-> 220,v_fails |-> {},v_c |-> 1]),
    ([v_l |-> 221,v_fails |-> {},v_c |-> 1]),
    ([v_l |-> 222,v_fails |-> {},v_c |-> 1]),
    ([v_l |-> 223,v_fails |-> {},v_c |-> 1]),
    ([v_l |-> 224,v_fails |-> {},v_c |-> 1]),
    ([v_l |-> 225,v_fails |-> {},v_c |-> 1]),
    ([v_l |-> 226,v_fails |-> {},v_c |-> 1]),
    ([v_l |-> 227,v_fails |-> {},v_c |-> 1]),
    ([v_l |-> 228,v_fails |-> {},v_c |-> 1]),
    ([v_l |-> 229,v_fails |-> {},v_c |-> 1]),
    ([v_l |-> 230,v_fails |-> {},v_c |-> 1]),
    ([v_l |-> 231,v_fails |-> {},v_c |-> 1]),
    ([v_l |-> 232,v_fails |-> {},v_c |-> 1]),
    ([v_l |-> 233,v_fails |-> {},v_c |-> 1]),
    ([v_l |-> 234,v_fails |-> {},v_c |-> 1]),
    ([v_l |-> 235,v_fails |-> {},v_c |-> 1]),
    ([v_l |-> 236,v_fails |-> {},v_c |-> 1]),
    ([v_l |-> 237,v_fails |-> {},v_c |-> 1]),
    ([v_l |-> 238,v_fails |-> {},v_c |-> 1]),
    ([v_l |-> 239,v_fails |-> {},v_c |-> 1]),
    ([v_l |-> 240,v_fails |-> {},v_c |-> 1]),
    ([v_l |-> 241,v_fails |-> {},v_c |-> 1]),
    ([v_l |-> 242,v_fails |-> {},v_c |-> 1]),
    ([v_l |-> 243,v_fails |-> {},v_c |-> 1]),
    ([v_l |-> 244,v_fails |-> {},v_c |-> 1]),
    ([v_l |-> 245,v_fails |-> {},v_c |-> 1]),
    ([v_l |-> 246,v_fails |-> {},v_c |-> 1]),
    ([v_l |-> 247,v_fails |-> {},v_c |-> 1]),
    ([v_l |-> 248,v_fails |-> {},v_c |-> 1]),
    ([v_l |-> 249,v_fails |-> {},v_c |-> 1]),
    ([v_l |-> 250,v_fails |-> {},v_c |-> 1]),
    ([v_l |-> 251,v_fails |-> {},v_c |-> 1]),
    ([v_l |-> 252,v_fails |-> {},v_c |-> 1]),
    ([v_l |-> 253,v_fails |-> {},v_c |-> 1]),
    ([v_l |-> 254,v_fails |-> {},v_c |-> 1]),
    ([v_l |-> 255,v_fails |-> {},v_c |-> 1]),
    ([v_l |-> 256,v_fails |-> {},v_c |-> 1]),
    ([v_l |-> 257,v_fails |-> {},v_c |-> 1]),
    ([v_l |-> 258,v_fails |-> {},v_c |-> 1]),
    ([v_l |-> 259,v_fails |-> {},v_c |-> 1]),
    ([v_l |-> 260,v_fails |-> {},v_c |-> 1]),
    ([v_l |-> 261,v_fails |-> {},v_c |-> 1]),
    ([v_l |-> 262,v_fails |-> {},v_c |-> 1]),
    ([v_l |-> 263,v_fails |-> {},v_c |-> 1]),
    ([v_l |-> 264,v_fails |-> {},v_c |-> 1]),
    ([v_l |-> 265,v_fails |-> {},v_c |-> 1]),
    ([v_l |-> 266,v_fails |-> {},v_c |-> 1]),
    ([v_l |-> 267,v_fails |-> {},v_c |-> 1]),
    ([v_l |-> 268,v_fails |-> {},v_c |-> 1]),
    ([v_l |-> 269,v_fails |-> {},v_c |-> 1]),
    ([v_l |-> 270,v_fails |-> {},v_c |-> 1]),
    ([v_l |-> 271,v_fails |-> {},v_c |-> 1]),
    ([v_l |-> 272,v_fails |-> {},v_c |-> 1]),
    ([v_l |-> 273,v_fails |-> {},v_c |-> 1]),
    ([v_l |-> 274,v_fails |-> {},v_c |-> 1]),
    ([v_l |-> 275,v_fails |-> {},v_c |-> 1]),
    ([v_l |-> 276,v_fails |-> {},v_c |-> 1]),
    ([v_l |-> 277,v_fails |-> {},v_c |-> 1]),
    ([v_l |-> 278,v_fails |-> {},v_c |-> 1]),
    ([v_l |-> 279,v_fails |-> {},v_c |-> 1]),
    ([v_l |-> 280,v_fails |-> {},v_c |-> 1]),
    ([v_l |-> 281,v_fails |-> {},v_c |-> 1]),
    ([v_l |-> 282,v_fails |-> {},v_c |-> 1]),
    ([v_l |-> 283,v_fails |-> {},v_c |-> 1]),
    ([v_l |-> 284,v_fails |-> {},v_c |-> 1]),
    ([v_l |-> 285,v_fails |-> {},v_c |-> 1]),
    ([v_l |-> 286,v_fails |-> {},v_c |-> 1]),
    ([v_l |-> 287,v_fails |-> {},v_c |-> 1]),
    ([v_l |-> 288,v_fails |-> {},v_c |-> 1]),
    ([v_l |-> 289,v_fails |-> {},v_c |-> 1]),
    ([v_l |-> 290,v_fails |-> {},v_c |-> 1]),
    ([v_l |-> 291,v_fails |-> {},v_c |-> 1]),
    ([v_l |-> 292,v_fails |-> {},v_c |-> 1]),
    ([v_l |-> 293,v_fails |-> {},v_c |-> 1]),
    ([v_l |-> 294,v_fails |-> {},v_c |-> 1]),
    ([v_l |-> 295,v_fails |-> {},v_c |-> 1]),
    ([v_l |-> 296,v_fails |-> {},v_c |-> 1]),
    ([v_l |-> 297,v_fails |-> {},v_c |-> 1]),
    ([v_l |-> 298,v_fails |-> {},v_c |-> 1]),
    ([v_l |-> 299,v_fails |-> {},v_c |-> 1]),
    ([v_l |-> 300,v_fails |-> {},v_c |-> 1]),
    ([v_l |-> 301,v_fails |-> {},v_c |-> 1]),
    ([v_l |-> 302,v_fails |-> {},v_c |-> 1]),
    ([v_l |-> 303,v_fails |-> {},v_c |-> 1]),
    ([v_l |-> 304,v_fails |-> {},v_c |-> 1]),
    ([v_l |-> 305,v_fails |-> {},v_c |-> 1]),
    ([v_l |-> 306,v_fails |-> {},v_c |-> 1]),
    ([v_l |-> 307,v_fails |-> {},v_c |-> 1]),
    ([v_l |-> 308,v_fails |-> {},v_c |-> 1]),
    ([v_l |-> 309,v_fails |-> {},v_c |-> 1]),
    ([v_l |-> 310,v_fails |-> {},v_c |-> 1]),
    ([v_l |-> 311,v_fails |-> {},v_c |-> 1]),
    ([v_l |-> 312,v_fails |-> {},v_c |-> 1]),
    ([v_l |-> 313,v_fails |-> {},v_c |-> 1]),
    ([v_l |-> 314,v_fails |-> {},v_c |-> 1]),
    ([v_l |-> 315,v_fails |-> {},v_c |-> 1]),
    ([v_l |-> 316,v_fails |-> {},v_c |-> 1]),
    ([v_l |-> 317,v_fails |-> {},v_c |-> 1]),
    ([v_l |-> 318,v_fails |-> {},v_c |-> 1]),
    ([v_l |-> 319,v_fails |-> {},v_c |-> 1]),
    ([v_l |-> 320,v_fails |-> {},v_c |-> 1]),
    ([v_l |-> 321,v_fails |-> {},v_c |-> 1]),
    ([v_l |-> 322,v_fails |-> {},v_c |-> 1]),
    ([v_l |-> 323,v_fails |-> {},v_c |-> 1]),
    ([v_l |-> 324,v_fails |-> {},v_c |-> 1]),
    ([v_l |-> 325,v_fails |-> {},v_c |-> 1]),
    ([v_l |-> 326,v_fails |-> {},v_c |-> 1]),
    ([v_l |-> 327,v_fails |-> {},v_c |-> 1]),
    ([v_l |-> 328,v_fails |-> {},v_c |-> 1]),
    ([v_l |-> 329,v_fails |-> {},v_c |-> 1]),
    ([v_l |-> 330,v_fails |-> {},v_c |-> 1]),
    ([v_l |-> 331,v_fails |-> {},v_c |-> 1]),
    ([v_l |-> 332,v_fails |-> {},v_c |-> 1]),
    ([v_l |-> 333,v_fails |-> {},v_c |-> 1]),
    ([v_l |-> 334,v_fails |-> {},v_c |-> 1]),
    ([v_l |-> 335,v_fails |-> {},v_c |-> 1]),
    ([v_l |-> 336,v_fails |-> {},v_c |-> 1]),
    ([v_l |-> 337,v_fails |-> {},v_c |-> 1]),
    ([v_l |-> 338,v_fails |-> {},v_c |-> 1]),
    ([v_l |-> 339,v_fails |-> {},v_c |-> 1]),
    ([v_l |-> 340,v_fails |-> {},v_c |-> 1]),
    ([v_l |-> 341,v_fails |-> {},v_c |-> 1]),
    ([v_l |-> 342,v_fails |-> {},v_c |-> 1]),
    ([v_l |-> 343,v_fails |-> {},v_c |-> 1]),
    ([v_l |-> 344,v_fails |-> {},v_c |-> 1]),
    ([v_l |-> 345,v_fails |-> {},v_c |-> 1]),
    ([v_l |-> 346,v_fails |-> {},v_c |-> 1]),
    ([v_l |-> 347,v_fails |-> {},v_c |-> 1]),
    ([v_l |-> 348,v_fails |-> {},v_c |-> 1]),
    ([v_l |-> 349,v_fails |-> {},v_c |-> 1]),
    ([v_l |-> 350,v_fails |-> {},v_c |-> 1]),
    ([v_l |-> 351,v_fails |-> {},v_c |-> 1]),
    ([v_l |-> 352,v_fails |-> {},v_c |-> 1]),
    ([v_l |-> 353,v_fails |-> {},v_c |-> 1]),
    ([v_l |-> 354,v_fails |-> {},v_c |-> 1]),
    ([v_l |-> 355,v_fails |-> {},v_c |-> 1]),
    ([v_l |-> 356,v_fails |-> {},v_c |-> 1]),
    ([v_l |-> 357,v_fails |-> {},v_c |-> 1]),
    ([v_l |-> 358,v_fails |-> {},v_c |-> 1]),
    ([v_l |-> 359,v_fails |-> {},v_c |-> 1]),
    ([v_l |-> 360,v_fails |-> {},v_c |-> 1]),
    ([v_l |-> 361,v_fails |-> {},v_c |-> 1]),
    ([v_l |-> 362,v_fails |-> {},v_c |-> 1]),
    ([v_l |-> 363,v_fails |-> {},v_c |-> 1]),
    ([v_l |-> 364,v_fails |-> {},v_c |-> 1]),
    ([v_l |-> 365,v_fails |-> {},v_c |-> 1]),
    ([v_l |-> 366,v_fails |-> {},v_c |-> 1]),
    ([v_l |-> 367,v_fails |-> {},v_c |-> 1]),
    ([v_l |-> 368,v_fails |-> {},v_c |-> 1]),
    ([v_l |-> 369,v_fails |-> {},v_c |-> 1]),
    ([v_l |-> 370,v_fails |-> {},v_c |-> 1]),
    ([v_l |-> 371,v_fails |-> {},v_c |-> 1]),
    ([v_l |-> 372,v_fails |-> {},v_c |-> 1]),
    ([v_l |-> 373,v_fails |-> {},v_c |-> 1]),
    ([v_l |-> 374,v_fails |-> {},v_c |-> 1]),
    ([v_l |-> 375,v_fails |-> {},v_c |-> 1]),
    ([v_l |-> 376,v_fails |-> {},v_c |-> 1]),
    ([v_l |-> 377,v_fails |-> {},v_c |-> 1]),
    ([v_l |-> 378,v_fails |-> {},v_c |-> 1]),
    ([v_l |-> 379,v_fails |-> {},v_c |-> 1]),
    ([v_l |-> 380,v_fails |-> {},v_c |-> 1]),
    ([v_l |-> 381,v_fails |-> {},v_c |-> 1]),
    ([v_l |-> 382,v_fails |-> {},v_c |-> 1]),
    ([v_l |-> 383,v_fails |-> {},v_c |-> 1]),
    ([v_l |-> 384,v_fails |-> {},v_c |-> 1]),
    ([v_l |-> 385,v_fails |-> {},v_c |-> 1]),
    ([v_l |-> 386,v_fails |-> {},v_c |-> 1]),
    ([v_l |-> 387,v_fails |-> {},v_c |-> 1]),
    ([v_l |-> 388,v_fails |-> {},v_c |-> 1]),
    ([v_l |-> 389,v_fails |-> {},v_c |-> 1]),
    ([v_l |-> 390,v_fails |-> {},v_c |-> 1]),
    ([v_l |-> 391,v_fails |-> {},v_c |-> 1]),
    ([v_l |-> 392,v_fails |-> {},v_c |-> 1]),
    ([v_l |-> 393,v_fails |-> {},v_c |-> 1]),
    ([v_l |-> 394,v_fails |-> {},v_c |-> 1]),
    ([v_l |-> 395,v_fails |-> {},v_c |-> 1]),
    ([v_l |-> 396,v_fails |-> {},v_c |-> 1]),
    ([v_l |-> 397,v_fails |-> {},v_c |-> 1]),
    ([v_l |-> 398,v_fails |-> {},v_c |-> 1]),
    ([v_l |-> 399,v_fails |-> {},v_c |-> 1]),
    ([v_l |-> 400,v_fails |-> {},v_c |-> 1]),
    ([v_l |-> 401,v_fails |-> {},v_c |-> 1]),
    ([v_l |-> 402,v_fails |-> {},v_c |-> 1]),
    ([v_l |-> 403,v_fails |-> {},v_c |-> 1]),
    ([v_l |-> 404,v_fails |-> {},v_c |-> 1]),
    ([v_l |-> 405,v_fails |-> {},v_c |-> 1]),
    ([v_l |-> 406,v_fails |-> {},v_c |-> 1]),
    ([v_l |-> 407,v_fails |-> {},v_c |-> 1]),
    ([v_l |-> 408,v_fails |-> {},v_c |-> 1]),
    ([v_l |-> 409,v_fails |-> {},v_c |-> 1]),
    ([v_l |-> 410,v_fails |-> {},v_c |-> 1]),
    ([v_l |-> 411,v_fails |-> {},v_c |-> 1]),
    ([v_l |-> 412,v_fails |-> {},v_c |-> 1]),
    ([v_l |-> 413,v_fails |-> {},v_c |-> 1]),
    ([v_l |-> 414,v_fails |-> {},v_c |-> 1]),
    ([v_l |-> 415,v_fails |-> {},v_c |-> 1]),
    ([v_l |-> 416,v_fails |-> {},v_c |-> 1]),
    ([v_l |-> 417,v_fails |-> {},v_c |-> 1]),
    ([v_l |-> 418,v_fails |-> {},v_c |-> 1]),
    ([v_l |-> 419,v_fails |-> {},v_c |-> 1]),
    ([v_l |-> 420,v_fails |-> {},v_c |-> 1]),
    ([v_l |-> 421,v_fails |-> {},v_c |-> 1]),
    ([v_l |-> 422,v_fails |-> {},v_c |-> 1]),
    ([v_l |-> 423,v_fails |-> {},v_c |-> 1]),
    ([v_l |-> 424,v_fails |-> {},v_c |-> 1]),
    ([v_l |-> 425,v_fails |-> {},v_c |-> 1]),
    ([v_l |-> 426,v_fails |-> {},v_c |-> 1]),
    ([v_l |-> 427,v_fails |-> {},v_c |-> 1]),
    ([v_l |-> 428,v_fails |-> {},v_c |-> 1]),
    ([v_l |-> 429,v_fails |-> {},v_c |-> 1]),
    ([v_l |-> 430,v_fails |-> {},v_c |-> 1]),
    ([v_l |-> 431,v_fails |-> {},v_c |-> 1]),
    ([v_l |-> 432,v_fails |-> {},v_c |-> 1]),
    ([v_l |-> 433,v_fails |-> {},v_c |-> 1]),
    ([v_l |-> 434,v_fails |-> {},v_c |-> 1]),
    ([v_l |-> 435,v_fails |-> {},v_c |-> 1]),
    ([v_l |-> 436,v_fails |-> {},v_c |-> 1]),
    ([v_l |-> 437,v_fails |-> {},v_c |-> 1]),
    ([v_l |-> 438,v_fails |-> {},v_c |-> 1]),
    ([v_l |-> 439,v_fails |-> {},v_c |-> 1]),
    ([v_l |-> 440,v_fails |-> {},v_c |-> 1]),
    ([v_l |-> 441,v_fails |-> {},v_c |-> 1]),
    ([v_l |-> 442,v_fails |-> {},v_c |-> 1]),
    ([v_l |-> 443,v_fails |-> {},v_c |-> 1]),
    ([v_l |-> 444,v_fails |-> {},v_c |-> 1]),
    ([v_l |-> 445,v_fails |-> {},v_c |-> 1]),
    ([v_l |-> 446,v_fails |-> {},v_c |-> 1]),
    ([v_l |-> 447,v_fails |-> {},v_c |-> 1]),
    ([v_l |-> 448,v_fails |-> {},v_c |-> 1]),
    ([v_l |-> 449,v_fails |-> {},v_c |-> 1]),
    ([v_l |-> 450,v_fails |-> {},v_c |-> 1])
    >>
----


=============================================================================

---- CONFIG ProfG_TTrace_1791011639 ----

INVARIANT
    _inv

CHECK_DEADLOCK
    \* CHECK_DEADLOCK off because of PROPERTY or INVARIANT above.
    FALSE

INIT
    _init

NEXT
    _next

CONSTANT
    _TETrace <- _trace

ALIAS
    _expression
=============================================================================
\* Generated on Sat Oct 03 07:14:47 UTC 2026