---------------------------- MODULE ReedSolomon ----------------------------
(***************************************************************************)
(* The interleaved Reed-Solomon code of ECC 200 (ISO/IEC 16022 Annex E):   *)
(* a symbol with B blocks and k error codewords per block carries the word *)
(* data ++ ecc; block b (0-based) consists of the data codewords           *)
(* b+1, b+1+B, ... followed by the error codewords b+1, b+1+B, ... of the  *)
(* ecc part (the two parts are strided separately, which gives the unequal *)
(* 156/155 split of 144x144).  Each block, read as a polynomial with the   *)
(* first codeword as the highest coefficient, is a multiple of             *)
(* g(x) = (x - alpha^1) ... (x - alpha^k).                                 *)
(* The Channel machine: Encode, Corrupt, Correct.                          *)
(***************************************************************************)
EXTENDS GF256, Symbols

RsDataIdx(sz, bb) == SelectSeq([ri \in 1..Cap(sz) |-> ri], LAMBDA ri : (ri - 1) % Blocks(sz) = bb)
RsEccIdx(sz, bb)  == SelectSeq([ri \in 1..NumEc(sz) |-> Cap(sz) + ri], LAMBDA ri : (ri - Cap(sz) - 1) % Blocks(sz) = bb)
RsBlockIdx(sz, bb) == RsDataIdx(sz, bb) \o RsEccIdx(sz, bb)
\* cached per size: the index sequences of all blocks
RsBlockTab == [sz \in Names |-> [bb \in 0..(Blocks(sz) - 1) |-> RsBlockIdx(sz, bb)]]
RsBlockWord(sz, ww, bb) == LET idx == RsBlockTab[sz][bb] IN [ri \in 1..Len(idx) |-> ww[idx[ri]]]
RsSyndromes(sz, ww, bb) == LET bw == RsBlockWord(sz, ww, bb) IN [rj \in 1..EcBlock(sz) |-> GfEval(bw, GfPow(rj))]
RsBlockOk(sz, ww, bb)   == LET bw == RsBlockWord(sz, ww, bb) IN \A rj \in 1..EcBlock(sz) : GfEval(bw, GfPow(rj)) = 0
IsCodeword(sz, ww)      == Len(ww) = Total(sz) /\ \A bb \in 0..(Blocks(sz) - 1) : RsBlockOk(sz, ww, bb)
\* number of positions of block bb in which two words differ
RsBlockDistance(sz, wa, wb, bb) ==
  LET idx == RsBlockTab[sz][bb] IN Cardinality({ri \in 1..Len(idx) : wa[idx[ri]] # wb[idx[ri]]})
RsWithinCapacity(sz, wa, wb) ==
  \A bb \in 0..(Blocks(sz) - 1) : RsBlockDistance(sz, wa, wb, bb) <= EcBlock(sz) \div 2
\* number of leading zero syndromes of a block (evidence only)
RsLeadingZeros(syn) == LET nzs == {rj \in 1..Len(syn) : syn[rj] # 0} IN IF nzs = {} THEN Len(syn) ELSE Min(nzs) - 1

\* the block structure is a partition of 1..Total
ASSUME \A sz \in Names :
         /\ UNION {{RsBlockTab[sz][bb][ri] : ri \in 1..Len(RsBlockTab[sz][bb])} : bb \in 0..(Blocks(sz) - 1)} = 1..Total(sz)
         /\ FoldLeft(LAMBDA racc, bb : racc + Len(RsBlockTab[sz][bb]), 0, [ri \in 1..Blocks(sz) |-> ri - 1]) = Total(sz)
ASSUME {Len(RsBlockTab["Square144"][bb]) : bb \in 0..7} = {218} /\ {Len(RsBlockTab["Square144"][bb]) : bb \in 8..9} = {217}
\* the generator polynomial has exactly the prescribed roots
ASSUME \A rk \in {EcBlock(sz) : sz \in Names} :
         LET gg == GfGen(rk) IN Len(gg) = rk + 1 /\ gg[1] = 1 /\ \A rj \in 1..rk : GfEval(gg, GfPow(rj)) = 0
=============================================================================
