------------------------------- MODULE Render -------------------------------
(***************************************************************************)
(* Finder pattern, clock tracks and alignment bars of ECC 200 symbols      *)
(* (ISO/IEC 16022 5.1, Figure 1 and Table 7; ISO/IEC 21471): a symbol of   *)
(* R x C modules consists of rrows x rcols data regions, each surrounded   *)
(* by its own finder: inside a region of (ih+2) x (iw+2) modules the left  *)
(* column and the bottom row are solid dark, the top row is dark at even   *)
(* symbol columns and the right column is dark at odd symbol rows.         *)
(* Render / Extract / strict Parse expectation.                            *)
(***************************************************************************)
EXTENDS Placement

\* geometry of a size as one record (looked up once per use instead of once per module)
RGeom(sz) == [rows |-> Sz(sz).rows, cols |-> Sz(sz).cols, ih |-> RegH(sz), iw |-> RegW(sz),
              mrows |-> MapRows(sz), mcols |-> MapCols(sz), total |-> Total(sz)]
RGeomTab == FoldLeft(LAMBDA rgacc, rgi : rgacc @@ (Catalogue[rgi].name :> RGeom(Catalogue[rgi].name)), <<>>, [rgi \in 1..NSizes |-> rgi])

\* kind of the module at symbol row rr0, column cc0 (0-based)
RKind(sz, rr0, cc0) ==
  LET ih == RGeomTab[sz].ih  iw == RGeomTab[sz].iw
      ri == rr0 % (ih + 2)  ci == cc0 % (iw + 2) IN
  IF ci = 0 \/ ri = ih + 1 THEN "solid"
  ELSE IF ri = 0 THEN "clockTop"
  ELSE IF ci = iw + 1 THEN "clockRight"
  ELSE "data"
\* colour (1 = dark) of a finder module
RFinder(sz, rr0, cc0) ==
  LET k == RKind(sz, rr0, cc0) IN
  IF k = "solid" THEN 1 ELSE IF k = "clockTop" THEN (IF cc0 % 2 = 0 THEN 1 ELSE 0) ELSE (IF rr0 % 2 = 1 THEN 1 ELSE 0)
\* mapping-matrix cell (0-based, row-major) of a data module
RCellOf(sz, rr0, cc0) ==
  LET g == RGeomTab[sz]  ih == g.ih  iw == g.iw IN
  ((rr0 \div (ih + 2)) * ih + (rr0 % (ih + 2)) - 1) * g.mcols + ((cc0 \div (iw + 2)) * iw + (cc0 % (iw + 2)) - 1)
\* inverse: symbol position (0-based pixel index, row-major) of a mapping cell
RPixelOfCell(sz, cell) ==
  LET g == RGeomTab[sz]
      mr == cell \div g.mcols  mc == cell % g.mcols
      ih == g.ih  iw == g.iw
      rr0 == (mr \div ih) * (ih + 2) + (mr % ih) + 1
      cc0 == (mc \div iw) * (iw + 2) + (mc % iw) + 1
  IN rr0 * g.cols + cc0

\* the fixed pattern of the four left-over corner modules (12x12, 16x16, 20x20, 24x24): dark on the diagonal
RCornerColour(sz, cell) ==
  LET g == RGeomTab[sz]  mr == cell \div g.mcols  mc == cell % g.mcols IN
  IF (mr = g.mrows - 2 /\ mc = g.mcols - 2) \/ (mr = g.mrows - 1 /\ mc = g.mcols - 1) THEN 1 ELSE 0

\* colour of a data module given the placement array and the codeword vector
RDataColour(sz, parr, cw, cell) ==
  LET e == parr[cell + 1] IN
  IF e = 0 THEN RCornerColour(sz, cell)
  ELSE (cw[e \div 10] \div (2 ^ (8 - (e % 10)))) % 2

\* the complete rendering as a 0/1 sequence, row-major
RRender(sz, parr, cw) ==
  [pi \in 1..(RGeomTab[sz].rows * RGeomTab[sz].cols) |->
     LET rr0 == (pi - 1) \div RGeomTab[sz].cols  cc0 == (pi - 1) % RGeomTab[sz].cols IN
     IF RKind(sz, rr0, cc0) = "data" THEN RDataColour(sz, parr, cw, RCellOf(sz, rr0, cc0)) ELSE RFinder(sz, rr0, cc0)]

\* is the pixel array px (0/1, row-major, dimensions of sz) bit for bit a rendering of some content?
RIsRendering(sz, parr, px) ==
  \A pi \in 1..(RGeomTab[sz].rows * RGeomTab[sz].cols) :
     LET rr0 == (pi - 1) \div RGeomTab[sz].cols  cc0 == (pi - 1) % RGeomTab[sz].cols IN
     IF RKind(sz, rr0, cc0) # "data" THEN px[pi] = RFinder(sz, rr0, cc0)
     ELSE LET cell == RCellOf(sz, rr0, cc0) IN parr[cell + 1] # 0 \/ px[pi] = RCornerColour(sz, cell)

\* inverse placement: entry value chr*10+bit -> cell (0-based), -1 where undefined
PInverse(parr) ==
  FoldLeft(LAMBDA acc, ci : IF parr[ci] = 0 THEN acc ELSE [acc EXCEPT ![parr[ci]] = ci - 1],
           [pi \in 1..((Len(parr) \div 8) * 10 + 8) |-> -1], [ci \in 1..Len(parr) |-> ci])
\* the codewords carried by a pixel array (only meaningful for renderings)
RExtract(sz, pinv, px) ==
  [k \in 1..Total(sz) |->
     FoldLeft(LAMBDA acc, b : acc + px[RPixelOfCell(sz, pinv[k * 10 + b]) + 1] * (2 ^ (8 - b)), 0, <<1, 2, 3, 4, 5, 6, 7, 8>>)]
\* per-size tables: placement array and its inverse
RTables(sz) == [arr |-> PlacementOf(sz)]
=============================================================================
