------------------------------- MODULE Stream -------------------------------
(***************************************************************************)
(* ISO/IEC 16022 data codeword READER, written from the standard.          *)
(* Deterministic: RStep maps a reader record to its successor.  S is the   *)
(* codeword sequence, Exp the expected bytes (checked incrementally), En   *)
(* the set of enabled modes (for the disabled-mode flags only).            *)
(***************************************************************************)
EXTENDS Integers, Sequences, SequencesExt, TLC

Modes == {"ascii", "c40", "text", "x12", "edifact", "b256"}
LatchMode(cw) == CASE cw = 230 -> "c40" [] cw = 231 -> "b256" [] cw = 238 -> "x12"
                   [] cw = 239 -> "text" [] cw = 240 -> "edifact" [] OTHER -> "none"

Pad253(p) == LET t == 129 + ((149 * p) % 253) + 1 IN IF t <= 254 THEN t ELSE t - 254
Un255(v, p) == LET t == v - (((149 * p) % 255) + 1) IN IF t >= 0 THEN t ELSE t + 256

BaseChar(m, v)   == IF v = 3 THEN 32 ELSE IF v <= 13 THEN 48 + (v - 4)
                    ELSE (IF m = "c40" THEN 65 ELSE 97) + (v - 14)
Shift2Char(v)    == IF v <= 14 THEN 33 + v ELSE IF v <= 21 THEN 58 + (v - 15) ELSE 91 + (v - 22)
Shift3Char(m, v) == IF m = "c40" THEN 96 + v
                    ELSE IF v = 0 THEN 96 ELSE IF v <= 26 THEN 64 + v ELSE 96 + v
X12Char(v)       == CASE v = 0 -> 13 [] v = 1 -> 42 [] v = 2 -> 62 [] v = 3 -> 32
                      [] v \in 4..13 -> 48 + (v - 4) [] OTHER -> 65 + (v - 14)
EdifactChar(v)   == IF v >= 32 THEN v ELSE v + 64

MacroHead(cw) == IF cw = 236 THEN <<91, 41, 62, 30, 48, 53, 29>> ELSE <<91, 41, 62, 30, 48, 54, 29>>
MacroTrail    == <<30, 4>>

RInit == [pos |-> 1, mode |-> "ascii", shift |-> 0, upper |-> FALSE, aupper |-> FALSE,
          b256 |-> -1, outLen |-> 0, ok |-> TRUE, status |-> "run", reason |-> "",
          ecis |-> <<>>, latches |-> <<>>, macro |-> 0, fnc1 |-> FALSE,
          lenient |-> 0, pads |-> 0, tailCw |-> 0, tailCh |-> 0,
          asciiBeforeLatch |-> FALSE, disabledLatch |-> FALSE, asciiData |-> 0]

Rej(rd, why) == [rd EXCEPT !.status = "rej", !.reason = why]

\* emit one byte, comparing with the expectation
Emit(rd, b, Exp) ==
  [rd EXCEPT !.outLen = @ + 1,
             !.ok = @ /\ rd.outLen + 1 <= Len(Exp) /\ Exp[rd.outLen + 1] = b]
EmitSeq(rd, bs, Exp) == FoldLeft(LAMBDA r, b : Emit(r, b, Exp), rd, bs)

Left(rd, S) == Len(S) - rd.pos + 1

-----------------------------------------------------------------------------
\* ASCII
EciRead(rd, S) ==   \* rd.pos is at the first designator codeword; returns <<ok, value, consumed>>
  IF Left(rd, S) < 1 THEN <<FALSE, 0, 0>> ELSE
  LET c1 == S[rd.pos] IN
  IF c1 \in 1..127 THEN <<TRUE, c1 - 1, 1>>
  ELSE IF c1 \in 128..191 THEN
       IF Left(rd, S) < 2 THEN <<FALSE, 0, 0>> ELSE
       LET c2 == S[rd.pos + 1] IN
       IF c2 \in 1..254 THEN <<TRUE, (c1 - 128) * 254 + 127 + (c2 - 1), 2>> ELSE <<FALSE, 0, 0>>
  ELSE IF c1 \in 192..207 THEN
       IF Left(rd, S) < 3 THEN <<FALSE, 0, 0>> ELSE
       LET c2 == S[rd.pos + 1]  c3 == S[rd.pos + 2] IN
       IF c2 \in 1..254 /\ c3 \in 1..254
       THEN <<TRUE, (c1 - 192) * 64516 + 16383 + (c2 - 1) * 254 + (c3 - 1), 3>> ELSE <<FALSE, 0, 0>>
  ELSE <<FALSE, 0, 0>>

AsciiTail(rd, cws, chs) == [rd EXCEPT !.tailCw = @ + cws, !.tailCh = @ + chs, !.asciiData = @ + cws]

AsciiStep(rd, S, Exp, En) ==
  LET c == S[rd.pos]  nx == [rd EXCEPT !.pos = @ + 1] IN
  IF rd.aupper THEN
       IF c \in 1..128 THEN AsciiTail(Emit([nx EXCEPT !.aupper = FALSE], c + 127, Exp), 2, 1)
       ELSE Rej(rd, "after upper shift")
  ELSE IF rd.pos = 1 /\ c \in {236, 237} THEN
       EmitSeq([nx EXCEPT !.macro = c], MacroHead(c), Exp)
  ELSE IF rd.pos = 1 /\ c = 232 THEN [nx EXCEPT !.fnc1 = TRUE]
  ELSE IF c \in 1..128 THEN AsciiTail(Emit(nx, c - 1, Exp), 1, 1)
  ELSE IF c = 129 THEN
       IF \A p \in (rd.pos + 1)..Len(S) : S[p] = Pad253(p)
       THEN [rd EXCEPT !.pos = Len(S) + 1, !.pads = Len(S) - rd.pos + 1]
       ELSE Rej(rd, "bad pad")
  ELSE IF c \in 130..229 THEN
       AsciiTail(EmitSeq(nx, <<48 + ((c - 130) \div 10), 48 + ((c - 130) % 10)>>, Exp), 1, 2)
  ELSE IF LatchMode(c) # "none" THEN
       LET m == LatchMode(c) IN
       [nx EXCEPT !.mode = m, !.shift = 0, !.upper = FALSE, !.b256 = -1,
                  !.latches = Append(@, m),
                  !.disabledLatch = @ \/ (m \notin En),
                  !.asciiBeforeLatch = @ \/ (rd.tailCw > 0),
                  !.tailCw = 0, !.tailCh = 0]
  ELSE IF c = 232 THEN AsciiTail(Emit(nx, 29, Exp), 1, 1)
  ELSE IF c = 235 THEN [nx EXCEPT !.aupper = TRUE]
  ELSE IF c = 241 THEN
       LET e == EciRead(nx, S) IN
       IF e[1] THEN [nx EXCEPT !.pos = @ + e[3], !.ecis = Append(@, <<rd.outLen, e[2]>>)]
       ELSE Rej(rd, "eci designator")
  ELSE Rej(rd, "illegal ascii codeword")

-----------------------------------------------------------------------------
\* C40 / Text
C40Val(rd, v, Exp) ==     \* process one C40/Text value
  IF rd.status # "run" THEN rd
  ELSE LET up(b) == IF rd.upper THEN b + 128 ELSE b IN
  IF rd.shift = 0 THEN
       IF v <= 2 THEN [rd EXCEPT !.shift = v + 1]
       ELSE Emit([rd EXCEPT !.upper = FALSE], up(BaseChar(rd.mode, v)), Exp)
  ELSE IF rd.shift = 1 THEN
       IF v <= 31 THEN Emit([rd EXCEPT !.upper = FALSE, !.shift = 0], up(v), Exp)
       ELSE Rej(rd, "shift1 value")
  ELSE IF rd.shift = 2 THEN
       IF v <= 26 THEN Emit([rd EXCEPT !.upper = FALSE, !.shift = 0], up(Shift2Char(v)), Exp)
       ELSE IF v = 30 THEN [rd EXCEPT !.upper = TRUE, !.shift = 0]
       ELSE IF v = 27 THEN Rej(rd, "FNC1 in C40/Text")
       ELSE Rej(rd, "shift2 value")
  ELSE IF v <= 31 THEN Emit([rd EXCEPT !.upper = FALSE, !.shift = 0], up(Shift3Char(rd.mode, v)), Exp)
       ELSE Rej(rd, "shift3 value")

ToAscii(rd) == [rd EXCEPT !.mode = "ascii", !.shift = 0, !.upper = FALSE, !.tailCw = 0, !.tailCh = 0]

C40Step(rd, S, Exp) ==
  LET left == Left(rd, S) IN
  IF left = 1 /\ S[rd.pos] # 254 THEN ToAscii(rd)                       \* rule d: implicit unlatch
  ELSE IF S[rd.pos] = 254 THEN                                          \* explicit unlatch
       [ToAscii(rd) EXCEPT !.pos = rd.pos + 1,
                           !.lenient = @ + (IF rd.shift # 0 \/ rd.upper THEN 1 ELSE 0)]
  ELSE LET v == S[rd.pos] * 256 + S[rd.pos + 1] - 1 IN
       IF v < 0 \/ v \div 1600 > 39 THEN Rej(rd, "c40 pair out of range")
       ELSE LET r3 == FoldLeft(LAMBDA r, x : C40Val(r, x, Exp), [rd EXCEPT !.pos = @ + 2],
                               <<v \div 1600, (v \div 40) % 40, v % 40>>)
            IN IF r3.status = "run" /\ r3.pos > Len(S) THEN ToAscii(r3) ELSE r3   \* end of symbol (rules a, b)

X12Step(rd, S, Exp) ==
  LET left == Left(rd, S) IN
  IF left = 1 /\ S[rd.pos] # 254 THEN ToAscii(rd)
  ELSE IF S[rd.pos] = 254 THEN [ToAscii(rd) EXCEPT !.pos = rd.pos + 1]
  ELSE LET v == S[rd.pos] * 256 + S[rd.pos + 1] - 1 IN
       IF v < 0 \/ v \div 1600 > 39 THEN Rej(rd, "x12 pair out of range")
       ELSE LET r3 == EmitSeq([rd EXCEPT !.pos = @ + 2],
                       <<X12Char(v \div 1600), X12Char((v \div 40) % 40), X12Char(v % 40)>>, Exp)
            IN IF r3.pos > Len(S) THEN ToAscii(r3) ELSE r3

-----------------------------------------------------------------------------
\* EDIFACT: groups of four 6-bit values in three codewords
EdifactStep(rd, S, Exp) ==
  IF Left(rd, S) <= 2 THEN ToAscii(rd)                                  \* <= 2 codewords left: ASCII
  ELSE LET bits == S[rd.pos] * 65536 + S[rd.pos + 1] * 256 + S[rd.pos + 2]
           val(i) == (bits \div (2 ^ (18 - 6 * (i - 1)))) % 64          \* i in 1..4
           \* first position holding the unlatch value, 5 if none
           u == IF val(1) = 31 THEN 1 ELSE IF val(2) = 31 THEN 2 ELSE IF val(3) = 31 THEN 3
                ELSE IF val(4) = 31 THEN 4 ELSE 5
           used == IF u = 1 THEN 1 ELSE IF u = 2 THEN 2 ELSE 3
           out == [i \in 1..(u - 1) |-> EdifactChar(val(i))]
           r1 == EmitSeq([rd EXCEPT !.pos = @ + used], out, Exp)
       IN IF u <= 4 THEN ToAscii(r1) ELSE r1

-----------------------------------------------------------------------------
\* Base 256
B256Step(rd, S, Exp) ==
  IF rd.b256 = -1 THEN
       LET d1 == Un255(S[rd.pos], rd.pos) IN
       IF d1 = 0 THEN [rd EXCEPT !.pos = @ + 1, !.b256 = Len(S) - rd.pos]
       ELSE IF d1 < 250 THEN [rd EXCEPT !.pos = @ + 1, !.b256 = d1]
       ELSE IF Left(rd, S) < 2 THEN Rej(rd, "b256 length")
       ELSE [rd EXCEPT !.pos = @ + 2, !.b256 = 250 * (d1 - 249) + Un255(S[rd.pos + 1], rd.pos + 1)]
  ELSE Emit([rd EXCEPT !.pos = @ + 1, !.b256 = @ - 1], Un255(S[rd.pos], rd.pos), Exp)

B256Done(rd) == IF rd.mode = "b256" /\ rd.b256 = 0 THEN ToAscii([rd EXCEPT !.b256 = -1]) ELSE rd

-----------------------------------------------------------------------------
Finish(rd, Exp) ==
  IF rd.aupper THEN Rej(rd, "dangling ascii upper shift")
  ELSE IF rd.mode = "b256" /\ rd.b256 # 0 THEN Rej(rd, "b256 overrun")
  ELSE LET r1 == IF rd.macro # 0 THEN EmitSeq(rd, MacroTrail, Exp) ELSE rd
       IN [r1 EXCEPT !.status = "done"]

RStep(rd, S, Exp, En) ==
  IF rd.status # "run" THEN rd
  ELSE LET r0 == B256Done(rd) IN
  IF r0.pos > Len(S) THEN Finish(r0, Exp)
  ELSE CASE r0.mode = "ascii"          -> AsciiStep(r0, S, Exp, En)
         [] r0.mode \in {"c40","text"} -> C40Step(r0, S, Exp)
         [] r0.mode = "x12"            -> X12Step(r0, S, Exp)
         [] r0.mode = "edifact"        -> EdifactStep(r0, S, Exp)
         [] r0.mode = "b256"           -> B256Step(r0, S, Exp)

\* verdict helpers
Accepted(rd, Exp)  == rd.status = "done" /\ rd.ok /\ rd.outLen = Len(Exp)
\* C13, ASCII disabled: ASCII *data* codewords only after the last non-ASCII run, at most four characters
\* in at most four codewords (the widest reading of the standard's end-of-data fallbacks), and never
\* without any latch at all.
TailOK(rd, En)     == ("ascii" \in En) \/ (~rd.asciiBeforeLatch /\ rd.tailCw <= 4 /\ rd.tailCh <= 4
                                            /\ (rd.asciiData > 0 => rd.latches # <<>>))
=============================================================================
