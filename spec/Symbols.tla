------------------------------ MODULE Symbols ------------------------------
(***************************************************************************)
(* The ECC 200 symbol catalogue (ISO/IEC 16022:2006 Table 7 and the        *)
(* rectangular extensions of ISO/IEC 21471), transcribed from the          *)
(* standards, and the SymbolList builder machine of the crate's public     *)
(* API (default / extended / whitelist / enforce_* filters / iteration     *)
(* order / "first symbol big enough").                                     *)
(***************************************************************************)
EXTENDS Integers, Sequences, FiniteSets, SequencesExt, FiniteSetsExt, TLC

\* [name, rows, cols, data codewords, ec codewords per block, blocks, region rows, region cols, dmre]
Row(n, r, c, d, e, b, rr, rc, x) ==
  [name |-> n, rows |-> r, cols |-> c, data |-> d, ec |-> e, blocks |-> b, rrows |-> rr, rcols |-> rc, dmre |-> x]

Catalogue == <<
  Row("Square10", 10, 10, 3, 5, 1, 1, 1, FALSE),
  Row("Square12", 12, 12, 5, 7, 1, 1, 1, FALSE),
  Row("Square14", 14, 14, 8, 10, 1, 1, 1, FALSE),
  Row("Square16", 16, 16, 12, 12, 1, 1, 1, FALSE),
  Row("Square18", 18, 18, 18, 14, 1, 1, 1, FALSE),
  Row("Square20", 20, 20, 22, 18, 1, 1, 1, FALSE),
  Row("Square22", 22, 22, 30, 20, 1, 1, 1, FALSE),
  Row("Square24", 24, 24, 36, 24, 1, 1, 1, FALSE),
  Row("Square26", 26, 26, 44, 28, 1, 1, 1, FALSE),
  Row("Square32", 32, 32, 62, 36, 1, 2, 2, FALSE),
  Row("Square36", 36, 36, 86, 42, 1, 2, 2, FALSE),
  Row("Square40", 40, 40, 114, 48, 1, 2, 2, FALSE),
  Row("Square44", 44, 44, 144, 56, 1, 2, 2, FALSE),
  Row("Square48", 48, 48, 174, 68, 1, 2, 2, FALSE),
  Row("Square52", 52, 52, 204, 42, 2, 2, 2, FALSE),
  Row("Square64", 64, 64, 280, 56, 2, 4, 4, FALSE),
  Row("Square72", 72, 72, 368, 36, 4, 4, 4, FALSE),
  Row("Square80", 80, 80, 456, 48, 4, 4, 4, FALSE),
  Row("Square88", 88, 88, 576, 56, 4, 4, 4, FALSE),
  Row("Square96", 96, 96, 696, 68, 4, 4, 4, FALSE),
  Row("Square104", 104, 104, 816, 56, 6, 4, 4, FALSE),
  Row("Square120", 120, 120, 1050, 68, 6, 6, 6, FALSE),
  Row("Square132", 132, 132, 1304, 62, 8, 6, 6, FALSE),
  Row("Square144", 144, 144, 1558, 62, 10, 6, 6, FALSE),
  Row("Rect8x18", 8, 18, 5, 7, 1, 1, 1, FALSE),
  Row("Rect8x32", 8, 32, 10, 11, 1, 1, 2, FALSE),
  Row("Rect12x26", 12, 26, 16, 14, 1, 1, 1, FALSE),
  Row("Rect12x36", 12, 36, 22, 18, 1, 1, 2, FALSE),
  Row("Rect16x36", 16, 36, 32, 24, 1, 1, 2, FALSE),
  Row("Rect16x48", 16, 48, 49, 28, 1, 1, 2, FALSE),
  Row("Rect8x48", 8, 48, 18, 15, 1, 1, 2, TRUE),
  Row("Rect8x64", 8, 64, 24, 18, 1, 1, 4, TRUE),
  Row("Rect8x80", 8, 80, 32, 22, 1, 1, 4, TRUE),
  Row("Rect8x96", 8, 96, 38, 28, 1, 1, 4, TRUE),
  Row("Rect8x120", 8, 120, 49, 32, 1, 1, 6, TRUE),
  Row("Rect8x144", 8, 144, 63, 36, 1, 1, 6, TRUE),
  Row("Rect12x64", 12, 64, 43, 27, 1, 1, 4, TRUE),
  Row("Rect12x88", 12, 88, 64, 36, 1, 1, 4, TRUE),
  Row("Rect16x64", 16, 64, 62, 36, 1, 1, 4, TRUE),
  Row("Rect20x36", 20, 36, 44, 28, 1, 1, 2, TRUE),
  Row("Rect20x44", 20, 44, 56, 34, 1, 1, 2, TRUE),
  Row("Rect20x64", 20, 64, 84, 42, 1, 1, 4, TRUE),
  Row("Rect22x48", 22, 48, 72, 38, 1, 1, 2, TRUE),
  Row("Rect24x48", 24, 48, 80, 41, 1, 1, 2, TRUE),
  Row("Rect24x64", 24, 64, 108, 46, 1, 1, 4, TRUE),
  Row("Rect26x40", 26, 40, 70, 38, 1, 1, 2, TRUE),
  Row("Rect26x48", 26, 48, 90, 42, 1, 1, 2, TRUE),
  Row("Rect26x64", 26, 64, 118, 50, 1, 1, 4, TRUE) >>

NSizes == Len(Catalogue)
Names == {Catalogue[i].name : i \in 1..NSizes}
IdxOf(n) == CHOOSE i \in 1..NSizes : Catalogue[i].name = n
\* function from name to row, built with :> and @@ so that TLC holds an explicit function (a function
\* constructor would stay lazy and re-evaluate the CHOOSE on every application)
SizeTab == FoldLeft(LAMBDA stacc, sti : stacc @@ (Catalogue[sti].name :> Catalogue[sti]), <<>>, [sti \in 1..NSizes |-> sti])
Sz(n) == SizeTab[n]

Cap(n)      == Sz(n).data
EcBlock(n)  == Sz(n).ec
Blocks(n)   == Sz(n).blocks
NumEc(n)    == Sz(n).ec * Sz(n).blocks
Total(n)    == Cap(n) + NumEc(n)
MapRows(n)  == Sz(n).rows - 2 * Sz(n).rrows
MapCols(n)  == Sz(n).cols - 2 * Sz(n).rcols
RegH(n)     == MapRows(n) \div Sz(n).rrows      \* data rows per region
RegW(n)     == MapCols(n) \div Sz(n).rcols
HasCorner(n) == MapRows(n) * MapCols(n) # 8 * Total(n)
IsSquare(n) == Sz(n).rows = Sz(n).cols
IsDmre(n)   == Sz(n).dmre

\* self-consistency of the transcription (typos in a row break the module-count identity)
ASSUME \A i \in 1..NSizes : LET r == Catalogue[i] IN
         /\ (r.rows - 2 * r.rrows) * (r.cols - 2 * r.rcols) \in {8 * (r.data + r.ec * r.blocks), 8 * (r.data + r.ec * r.blocks) + 4}
         /\ (r.rows - 2 * r.rrows) % r.rrows = 0 /\ (r.cols - 2 * r.rcols) % r.rcols = 0
         /\ r.rows % 2 = 0 /\ r.cols % 2 = 0
ASSUME NSizes = 48 /\ Cardinality(Names) = 48
ASSUME Cardinality({<<Catalogue[i].rows, Catalogue[i].cols>> : i \in 1..NSizes}) = 48   \* dimensions identify a size
ASSUME {n \in Names : HasCorner(n)} = {"Square12", "Square16", "Square20", "Square24"}
ASSUME Cardinality({n \in Names : ~IsDmre(n)}) = 30 /\ Cardinality({n \in Names : IsSquare(n)}) = 24
ASSUME Cardinality({EcBlock(n) : n \in Names}) = 25      \* 25 distinct generator polynomials

SizeByDims(h, w) == {n \in Names : Sz(n).rows = h /\ Sz(n).cols = w}

-----------------------------------------------------------------------------
(* The SymbolList machine.  State: a set of names.                         *)
DefaultList  == {n \in Names : ~IsDmre(n)}
ExtendedList == Names
Whitelist(seq) == {seq[i] : i \in 1..Len(seq)}
EnforceSquare(L) == {n \in L : IsSquare(n)}
EnforceRect(L)   == {n \in L : ~IsSquare(n)}
\* a range bound is <<kind, v>> with kind in {"U" (unbounded), "I" (included), "E" (excluded)}
InRange(x, lo, hi) ==
  /\ CASE lo[1] = "U" -> TRUE [] lo[1] = "I" -> x >= lo[2] [] OTHER -> x > lo[2]
  /\ CASE hi[1] = "U" -> TRUE [] hi[1] = "I" -> x <= hi[2] [] OTHER -> x < hi[2]
EnforceWidth(L, lo, hi)  == {n \in L : InRange(Sz(n).cols, lo, hi)}
EnforceHeight(L, lo, hi) == {n \in L : InRange(Sz(n).rows, lo, hi)}

\* A sequence is a legal iteration order of list L: a permutation of L with non-decreasing capacity.
IsIterOrder(seq, L) ==
  /\ Len(seq) = Cardinality(L) /\ {seq[i] : i \in 1..Len(seq)} = L
  /\ \A i \in 1..(Len(seq) - 1) : Cap(seq[i]) <= Cap(seq[i + 1])
\* first symbol of an iteration order that holds n codewords ("None" if there is none)
FirstBigEnough(seq, n) ==
  LET ok == {i \in 1..Len(seq) : Cap(seq[i]) >= n} IN
  IF ok = {} THEN "None" ELSE seq[Min(ok)]
MinCapFor(L, n) == LET ok == {Cap(s) : s \in {s \in L : Cap(s) >= n}} IN IF ok = {} THEN -1 ELSE Min(ok)
MaxCap(L) == IF L = {} THEN 0 ELSE Max({Cap(s) : s \in L})
Caps(L) == {Cap(s) : s \in L}
=============================================================================
