----------------------------- MODULE Trace_Dec -----------------------------
(***************************************************************************)
(* Trace specification for the "dec" family (C05, data codewords part):    *)
(* decode_data and decode_str on arbitrary codeword streams, recorded in   *)
(* batches of outcome kinds (0 = value, 1 = error, 2 = panic).  The        *)
(* decoder machine has no action that panics: a batch containing a 2 is    *)
(* matched by nothing.                                                     *)
(***************************************************************************)
EXTENDS Integers, Sequences, FiniteSets, Json, IOUtils, TLC
Cases == ndJsonDeserialize(IOEnv.TRACE)
VARIABLES v_c, v_l, v_fails
Case == Cases[v_c]
Events == Case.events
Init == v_c \in 1..Len(Cases) /\ v_l = 1 /\ v_fails = {}
EvBatch ==
  /\ v_l <= Len(Events) /\ Events[v_l].ev = "DecodeBatch"
  /\ LET e == Events[v_l] IN
     v_fails' = v_fails
       \cup (IF Len(e.data) # e.n \/ Len(e.str) # e.n THEN {"C05.batchIncomplete"} ELSE {})
       \cup (IF \E i \in 1..Len(e.data) : e.data[i] \notin {0, 1} THEN {"C05.decodeDataPanic"} ELSE {})
       \cup (IF \E i \in 1..Len(e.str) : e.str[i] \notin {0, 1} THEN {"C05.decodeStrPanic"} ELSE {})
  /\ v_l' = v_l + 1 /\ UNCHANGED v_c
EvHang == /\ v_l <= Len(Events) /\ Events[v_l].ev = "Hang" /\ v_fails' = v_fails \cup {"C05.hang"} /\ v_l' = v_l + 1 /\ UNCHANGED v_c
Next == EvBatch \/ EvHang
Terminal == v_l = Len(Events) + 1
Verdict == Terminal => PrintT(ToJson([id |-> Case.id, fails |-> v_fails]))
=============================================================================
