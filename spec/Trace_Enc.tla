----------------------------- MODULE Trace_Enc -----------------------------
(***************************************************************************)
(* Trace specification for the "enc" event family:                         *)
(*   Configure . Encode(data) . DecodeData(stream) . DecodePixels . Plan   *)
(* One TLC behaviour per recorded case.  The encoder's result is judged by *)
(* running the ISO/IEC 16022 reader of Stream.tla over the produced data   *)
(* codewords (silent reader steps, one per codeword group) and by the      *)
(* catalogue of Symbols.tla.  Every violated clause is named; the verdict  *)
(* line lists them and the driver attributes them to properties            *)
(* C01 C02 C10 C11 C13 C16.                                                *)
(***************************************************************************)
EXTENDS Stream, Symbols, Json, IOUtils

Cases == ndJsonDeserialize(IOEnv.TRACE)

VARIABLES v_c, v_l, v_rd, v_fails
vars == <<v_c, v_l, v_rd, v_fails>>

ModeNames == <<"ascii", "c40", "text", "x12", "edifact", "b256">>
EnOf(mask) == {ModeNames[i] : i \in {i \in 1..6 : (mask \div (2 ^ (i - 1))) % 2 = 1}}

Case   == Cases[v_c]
Events == Case.events
Inp    == Case.input
En     == EnOf(Case.modes)
ListSet == {Case.list[i] : i \in 1..Len(Case.list)}
EncRes == Events[1].res
EncOk  == EncRes.kind = "Ok"
Data   == EncRes.data

Head05 == <<91, 41, 62, 30, 48, 53, 29>>
Head06 == <<91, 41, 62, 30, 48, 54, 29>>
IsPrefixOf(p, s) == Len(p) <= Len(s) /\ SubSeq(s, 1, Len(p)) = p
HasHead(s)  == IsPrefixOf(Head05, s) \/ IsPrefixOf(Head06, s)
HasTrail(s) == Len(s) >= 2 /\ s[Len(s) - 1] = 30 /\ s[Len(s)] = 4
\* C16: the message is compacted exactly under these conditions
MacroDue == Case.macro /\ ~Case.fnc1 /\ HasHead(Inp) /\ HasTrail(Inp) /\ Len(Inp) >= 9
MacroCw  == IF IsPrefixOf(Head05, Inp) THEN 236 ELSE 237
Body     == IF MacroDue THEN SubSeq(Inp, 8, Len(Inp) - 2) ELSE Inp

EciLen(n) == IF n < 0 THEN 0 ELSE IF n <= 126 THEN 2 ELSE IF n <= 16382 THEN 3 ELSE 4
PrefixLen == (IF Case.fnc1 THEN 1 ELSE 0) + (IF MacroDue THEN 1 ELSE 0) + EciLen(Case.eci)

\* plain ASCII size (digit pairs greedily - optimal for ASCII) and plain Base256 size of the body
IsDigit(b) == b \in 48..57
AsciiSize(s) ==
  LET st == FoldLeft(LAMBDA a, i :
                IF a[2] THEN <<a[1], FALSE>>                                      \* second digit of a pair
                ELSE IF i < Len(s) /\ IsDigit(s[i]) /\ IsDigit(s[i + 1]) THEN <<a[1] + 1, TRUE>>
                ELSE <<a[1] + (IF s[i] < 128 THEN 1 ELSE 2), FALSE>>,
              <<0, FALSE>>, [i \in 1..Len(s) |-> i])
  IN st[1]
B256Size(s) == IF Len(s) = 0 THEN 0 ELSE 1 + (IF Len(s) <= 249 THEN 1 ELSE 2) + Len(s)
\* ASCII with every maximal run of bytes >= 128 written either with upper shifts or as one Base256 run with an
\* explicit length field (Base256 returns to ASCII by itself): a legal encoding whenever both schemes are enabled
HighRunSize(n) == IF n = 0 THEN 0
                  ELSE LET b == 1 + (IF n <= 249 THEN 1 ELSE 2) + n IN IF n <= 1555 /\ b < 2 * n THEN b ELSE 2 * n
MixedSize(s) ==
  LET st == FoldLeft(LAMBDA a, i :                                               \* <<codewords, second digit, high run>>
                IF a[2] THEN <<a[1], FALSE, 0>>
                ELSE IF s[i] >= 128 THEN <<a[1], FALSE, a[3] + 1>>
                ELSE <<a[1] + HighRunSize(a[3]) + 1, i < Len(s) /\ IsDigit(s[i]) /\ IsDigit(s[i + 1]), 0>>,
              <<0, FALSE, 0>>, [i \in 1..Len(s) |-> i])
  IN st[1] + HighRunSize(st[3])
\* upper bound on the codewords needed, from the closed forms (-1: no closed form applies)
\* one scheme for the whole message (only for messages whose characters are all single values / native in that scheme):
\* latch, whole triples, and - unless the data ends on a triple boundary - unlatch and the last one or two characters in
\* ASCII.  Legal in every symbol with at least that many codewords (a full symbol needs no unlatch, a larger one has room
\* for it in the padding area).  EDIFACT: latch, the characters and the unlatch value, packed 4 values to 3 codewords.
C40Single(b)  == b = 32 \/ b \in 48..57 \/ b \in 65..90
TextSingle(b) == b = 32 \/ b \in 48..57 \/ b \in 97..122
X12Native(b)  == b \in {13, 42, 62, 32} \/ b \in 48..57 \/ b \in 65..90
AllBytes(s, P(_)) == \A i \in 1..Len(s) : P(s[i])
TripleSize(s) == LET n == Len(s)  r == n % 3 IN
                 1 + 2 * (n \div 3) + (IF r = 0 THEN 0 ELSE 1 + AsciiSize(SubSeq(s, n - r + 1, n)))
EdifactSize(s) == LET n == Len(s) IN 1 + 3 * ((n + 1) \div 4) + ((n + 1) % 4)
TripleOK == "ascii" \in En \/ Len(Body) % 3 = 0
\* upper bound on the codewords needed, from the closed forms (-1: no closed form applies)
PlainCands ==
        (IF "ascii" \in En THEN {IF "b256" \in En THEN MixedSize(Body) ELSE AsciiSize(Body)} ELSE {})
        \cup (IF "b256" \in En /\ Len(Body) <= 1555 THEN {B256Size(Body)} ELSE {})
\* the ASCII / Base256 forms only (used by C16: a refusal of a compacted message; C10 uses all closed forms on its fixed case set)
UpperBoundPlain == IF PlainCands = {} THEN -1 ELSE PrefixLen + (CHOOSE m \in PlainCands : \A o \in PlainCands : m <= o)
UpperBound ==
  LET cands == PlainCands
        \cup (IF Len(Body) > 0 /\ "c40" \in En /\ TripleOK /\ AllBytes(Body, C40Single) THEN {TripleSize(Body)} ELSE {})
        \cup (IF Len(Body) > 0 /\ "text" \in En /\ TripleOK /\ AllBytes(Body, TextSingle) THEN {TripleSize(Body)} ELSE {})
        \cup (IF Len(Body) > 0 /\ "x12" \in En /\ TripleOK /\ AllBytes(Body, X12Native) THEN {TripleSize(Body)} ELSE {})
        \cup (IF Len(Body) > 0 /\ "edifact" \in En /\ AllBytes(Body, LAMBDA b : b \in 32..94) THEN {EdifactSize(Body)} ELSE {})
  IN IF cands = {} THEN -1 ELSE PrefixLen + (CHOOSE m \in cands : \A o \in cands : m <= o)

-----------------------------------------------------------------------------
Init == /\ v_c \in 1..Len(Cases)
        /\ v_l = 1
        /\ v_rd = [RInit EXCEPT !.status = "idle"]
        /\ v_fails = {}

IsEvent(e) == v_l <= Len(Events) /\ Events[v_l].ev = e /\ v_rd.status # "run"

ShapeFails ==
  LET s == EncRes.size IN
  (IF s \notin Names THEN {"C02.sizeUnknown"}
   ELSE (IF s \notin ListSet THEN {"C02.sizeNotInList"} ELSE {})
        \cup (IF Len(Data) # Cap(s) THEN {"C02.dataLen"} ELSE {})
        \cup (IF EncRes.necc # NumEc(s) THEN {"C02.eccLen"} ELSE {})
        \* C10 (closed-form part): never larger than the closed-form encodings (ASCII with Base256 runs, one scheme throughout) need,
        \* and among equal capacities the first of the list's own order
        \cup (IF UpperBound >= 0 /\ MinCapFor(ListSet, UpperBound) >= 0 /\ Cap(s) > MinCapFor(ListSet, UpperBound)
              THEN {"C10.largerThanPlain"} ELSE {})
        \cup (IF s \in ListSet /\ s # FirstBigEnough(Case.list, Cap(s)) THEN {"C10.tieOrder"} ELSE {}))

EvEncode ==
  /\ IsEvent("Encode") /\ v_l = 1
  /\ LET k == EncRes.kind IN
     /\ v_fails' = v_fails
          \cup (IF k \notin {"Ok", "TooMuch", "ListEmpty"} THEN {"C11.panic"} ELSE {})
          \cup (IF (k = "ListEmpty") # (Case.list = <<>>) THEN {"C11.listEmptyIff"} ELSE {})
          \cup (IF k \in {"TooMuch", "ListEmpty"} /\ Case.list # <<>> /\ UpperBound >= 0 /\ MinCapFor(ListSet, UpperBound) >= 0
                THEN {"C10.tooMuchButPlainFits"} ELSE {})
          \* C16: a message that is due for compaction and fits after compaction must not be refused
          \cup (IF k \in {"TooMuch", "ListEmpty"} /\ Case.list # <<>> /\ MacroDue /\ UpperBoundPlain >= 0 /\ MinCapFor(ListSet, UpperBoundPlain) >= 0
                THEN {"C16.macroRefused"} ELSE {})
          \cup (IF k = "Ok" THEN ShapeFails ELSE {})
     /\ v_rd' = IF k = "Ok" /\ Len(Data) > 0 THEN RInit ELSE v_rd
  /\ v_l' = v_l + 1 /\ UNCHANGED v_c

\* silent reader steps, one named action per reader mode (for -coverage)
ReadIn(m) == /\ v_rd.status = "run" /\ B256Done(v_rd).pos <= Len(Data) /\ B256Done(v_rd).mode = m
             /\ v_rd' = RStep(v_rd, Data, Inp, En) /\ UNCHANGED <<v_c, v_l, v_fails>>
ReadAscii   == ReadIn("ascii")
ReadC40     == ReadIn("c40")
ReadText    == ReadIn("text")
ReadX12     == ReadIn("x12")
ReadEdifact == ReadIn("edifact")
ReadB256    == ReadIn("b256")
ReadFinish  == /\ v_rd.status = "run" /\ B256Done(v_rd).pos > Len(Data)
               /\ v_rd' = RStep(v_rd, Data, Inp, En) /\ UNCHANGED <<v_c, v_l, v_fails>>

DecodeOk(res) == res.kind = "Ok" /\ res.bytes = Inp
\* C16: whatever involves the envelope or the FNC1 start must come back unchanged (compacted or verbatim)
EnvelopeCase == Case.fnc1 \/ HasHead(Inp) \/ HasTrail(Inp)
EvDecodeData ==
  /\ IsEvent("DecodeData")
  /\ v_fails' = v_fails \cup (IF Case.eci < 0 /\ ~DecodeOk(Events[v_l].res) THEN {"C01.decodeData"} ELSE {})
                    \cup (IF Case.eci < 0 /\ EnvelopeCase /\ ~DecodeOk(Events[v_l].res) THEN {"C16.roundTrip"} ELSE {})
                    \cup (IF Events[v_l].res.kind \notin {"Ok", "Err"} THEN {"C05.decodeDataPanic"} ELSE {})
  /\ v_l' = v_l + 1 /\ UNCHANGED <<v_c, v_rd>>
EvDecodePixels ==
  /\ IsEvent("DecodePixels")
  /\ v_fails' = v_fails \cup (IF Case.eci < 0 /\ ~DecodeOk(Events[v_l].res) THEN {"C01.decodePixels"} ELSE {})
                    \cup (IF Case.eci < 0 /\ EnvelopeCase /\ ~DecodeOk(Events[v_l].res) THEN {"C16.roundTrip"} ELSE {})
                    \cup (IF Events[v_l].res.kind \notin {"Ok", "Err"} THEN {"C05.decodePixelsPanic"} ELSE {})
  /\ v_l' = v_l + 1 /\ UNCHANGED <<v_c, v_rd>>
EvPlan ==
  /\ IsEvent("Plan")
  /\ v_fails' = v_fails \cup (IF Events[v_l].res.kind \notin {"Some", "None"} THEN {"C11.planPanic"} ELSE {})
  /\ v_l' = v_l + 1 /\ UNCHANGED <<v_c, v_rd>>

EvEncodeStr ==
  /\ IsEvent("EncodeStr")
  /\ LET k == Events[v_l].res.kind IN
     v_fails' = v_fails \cup (IF k \notin {"Ok", "TooMuch", "ListEmpty"} THEN {"C11.encodeStrPanic"} ELSE {})
                        \cup (IF (k = "ListEmpty") # (Case.list = <<>>) THEN {"C11.listEmptyIff"} ELSE {})
  /\ v_l' = v_l + 1 /\ UNCHANGED <<v_c, v_rd>>

Next == EvEncodeStr \/ EvEncode \/ ReadAscii \/ ReadC40 \/ ReadText \/ ReadX12 \/ ReadEdifact \/ ReadB256 \/ ReadFinish
        \/ EvDecodeData \/ EvDecodePixels \/ EvPlan

-----------------------------------------------------------------------------
\* clauses read off the reader's final state (only when the encoder returned Ok)
ReaderFails ==
  IF ~EncOk \/ v_rd.status = "idle" THEN {}
  ELSE
    (IF v_rd.status = "rej" THEN {"C02.readerRejects"} ELSE {})
    \cup (IF v_rd.status = "done" /\ ~(v_rd.ok /\ v_rd.outLen = Len(Inp)) THEN {"C02.readerMismatch"} ELSE {})
    \cup (IF v_rd.disabledLatch THEN {"C13.disabledLatch"} ELSE {})
    \cup (IF v_rd.status = "done" /\ ~TailOK(v_rd, En) THEN {"C13.asciiWhileDisabled"} ELSE {})
    \cup (IF (Data[1] \in {236, 237}) # MacroDue THEN {"C16.macroIff"} ELSE {})
    \cup (IF Data[1] \in {236, 237} /\ MacroDue /\ Data[1] # MacroCw THEN {"C16.macroKind"} ELSE {})
    \cup (IF (Data[1] = 232) # Case.fnc1 THEN {"C16.fnc1Iff"} ELSE {})
    \cup (IF EnvelopeCase /\ (v_rd.status = "rej" \/ (v_rd.status = "done" /\ ~(v_rd.ok /\ v_rd.outLen = Len(Inp)))) THEN {"C16.streamContent"} ELSE {})
    \cup (IF v_rd.status = "done" /\ Case.eci >= 0 /\ ~(Len(v_rd.ecis) = 1 /\ v_rd.ecis[1][2] = Case.eci
                                                       /\ v_rd.ecis[1][1] = (IF MacroDue THEN 7 ELSE 0))
          THEN {"C02.eci"} ELSE {})
    \cup (IF v_rd.status = "done" /\ Case.eci < 0 /\ v_rd.ecis # <<>> THEN {"C02.eciUnrequested"} ELSE {})

Terminal == v_l = Len(Events) + 1 /\ v_rd.status # "run"
Verdict  == Terminal =>
  PrintT(ToJson([id |-> Case.id, fails |-> v_fails \cup ReaderFails, lenient |-> v_rd.lenient,
                 latches |-> v_rd.latches, reason |-> v_rd.reason, tail |-> v_rd.tailCw]))
=============================================================================
