----------------------------- MODULE Trace_Geom -----------------------------
(***************************************************************************)
(* Trace specification for the "geom" family.  One case = a symbol size    *)
(* and a codeword vector; events:                                          *)
(*   Render -> pixels . ReadBack -> codewords . Flip(modules) -> (parse     *)
(*   result, decode result) ...                                            *)
(* TLC computes the expected rendering from the Annex F placement of        *)
(* Placement.tla and the finder geometry of Render.tla, and decides every   *)
(* deviation experiment by the kind of the flipped modules.  Clauses for    *)
(* C07 (values, read back), C08 (rendering, strict parsing), C03 (damage    *)
(* within capacity, pixel form), C05 (no panic).                            *)
(***************************************************************************)
EXTENDS Render, Bitwise, Json, IOUtils, TLC

Cases == ndJsonDeserialize(IOEnv.TRACE)
SizesUsed == {Cases[gi].size : gi \in 1..Len(Cases)} \cap Names
\* built with :> and @@ so that TLC holds an explicit (evaluated) function, not a lazy one
GTab == FoldLeft(LAMBDA gacc, gn : gacc @@ (gn :> RTables(gn)), <<>>, SetToSeq(SizesUsed))

VARIABLES v_c, v_l, v_fails
Case == Cases[v_c]
Events == Case.events
S0 == Case.size
Cw == Case.cw
Arr == GTab[S0].arr
Cols0 == RGeomTab[S0].cols
NPix == RGeomTab[S0].rows * Cols0

Init == v_c \in 1..Len(Cases) /\ v_l = 1 /\ v_fails = {}
IsEvent(ename) == v_l <= Len(Events) /\ Events[v_l].ev = ename /\ S0 \in Names /\ Len(Cw) = Total(S0)

EvRender ==
  /\ IsEvent("Render")
  /\ LET res == Events[v_l].res IN
     v_fails' = v_fails \cup
       (IF res.kind # "Ok" THEN {"C08.renderPanic"}
        ELSE IF res.w # Cols0 \/ Len(res.px) # NPix THEN {"C08.renderDimensions"}
        ELSE LET bad == {gp \in 1..NPix :
                          LET rr0 == (gp - 1) \div Cols0  cc0 == (gp - 1) % Cols0 IN
                          res.px[gp] # (IF RKind(S0, rr0, cc0) = "data" THEN RDataColour(S0, Arr, Cw, RCellOf(S0, rr0, cc0))
                                        ELSE RFinder(S0, rr0, cc0))}
                 badFinder == {gp \in bad : RKind(S0, (gp - 1) \div Cols0, (gp - 1) % Cols0) # "data"}
                 badCorner == {gp \in bad \ badFinder : Arr[RCellOf(S0, (gp - 1) \div Cols0, (gp - 1) % Cols0) + 1] = 0}
             IN (IF badFinder # {} THEN {"C08.renderFinder"} ELSE {})
                \cup (IF badCorner # {} THEN {"C07.cornerPattern"} ELSE {})
                \cup (IF bad \ (badFinder \cup badCorner) # {} THEN {"C07.value", "C08.renderData"} ELSE {}))
  /\ v_l' = v_l + 1 /\ UNCHANGED v_c

EvReadBack ==
  /\ IsEvent("ReadBack")
  /\ v_fails' = v_fails \cup (IF Events[v_l].res.kind = "Ok" /\ Events[v_l].res.cw = Cw THEN {} ELSE {"C07.readback"})
  /\ v_l' = v_l + 1 /\ UNCHANGED v_c

\* block of codeword number gk (1-based) in data ++ ecc
BlockOfCw(gk) == IF gk <= Cap(S0) THEN (gk - 1) % Blocks(S0) ELSE (gk - Cap(S0) - 1) % Blocks(S0)

EvFlip ==
  /\ IsEvent("Flip")
  /\ LET e == Events[v_l]
         fl == e.flips
         \* flipped modules (1-based pixel indices); the generator lists each module at most once
         eff == {fl[gi][1] * Cols0 + fl[gi][2] + 1 : gi \in 1..Len(fl)}
         isData(gp) == LET rr0 == (gp - 1) \div Cols0  cc0 == (gp - 1) % Cols0 IN
                       RKind(S0, rr0, cc0) = "data" /\ Arr[RCellOf(S0, rr0, cc0) + 1] # 0
         entry(gp) == Arr[RCellOf(S0, (gp - 1) \div Cols0, (gp - 1) % Cols0) + 1]
         nonData == \E gp \in eff : ~isData(gp)
         \* expected codewords after toggling data modules
         togg == {entry(gp) : gp \in eff}
         changed == {gk \in {ge \div 10 : ge \in togg} : TRUE}
         newVal(gk) == Cw[gk] ^^ SumSet({2 ^ (8 - (ge % 10)) : ge \in {ge \in togg : ge \div 10 = gk}})
         expDiff == {<<gk, newVal(gk)>> : gk \in changed}
         gotDiff == IF e.parse.kind = "Ok" THEN {<<e.parse.diff[gi][1], e.parse.diff[gi][2]>> : gi \in 1..Len(e.parse.diff)} ELSE {}
         within == \A gb \in 0..(Blocks(S0) - 1) : Cardinality({gk \in changed : BlockOfCw(gk) = gb}) <= EcBlock(S0) \div 2
     IN
     v_fails' = v_fails
       \cup (IF e.parse.kind \notin {"Ok", "Err"} THEN {"C05.parsePanic"} ELSE {})
       \cup (IF e.decode.kind \notin {"Ok", "Err", "Skipped"} THEN {"C05.decodePanic"} ELSE {})
       \cup (IF nonData /\ e.parse.kind = "Ok" THEN {"C08.acceptsDeviation"} ELSE {})
       \cup (IF nonData /\ e.parse.kind = "Err" /\ e.parse.err \notin {"Alignment", "Padding"} THEN {"C08.wrongError"} ELSE {})
       \cup (IF ~nonData /\ e.parse.kind = "Err" THEN {"C08.rejectsValid"} ELSE {})
       \cup (IF ~nonData /\ e.parse.kind = "Ok" /\ ~(e.parse.size = S0 /\ e.parse.len = Total(S0) /\ gotDiff = expDiff)
             THEN {"C08.parseContent"} ELSE {})
       \* whatever is accepted must re-render to exactly the parsed array
       \cup (IF e.parse.kind = "Ok" /\ ~(e.parse.rerenderWidth = Cols0 /\ e.parse.rerenderDiff = 0) THEN {"C08.rerender"} ELSE {})
       \cup (IF nonData /\ e.decode.kind = "Ok" THEN {"C08.decodeAcceptsDeviation"} ELSE {})
       \cup (IF Case.encoded /\ ~nonData /\ within /\ ~(e.decode.kind = "Ok" /\ e.decode.bytes = Case.msg)
             THEN {"C03.pixelDecode"} ELSE {})
  /\ v_l' = v_l + 1 /\ UNCHANGED v_c

\* the rendering with delta pixels appended (delta > 0) or removed (delta < 0), same width
EvResize ==
  /\ IsEvent("Resize")
  /\ LET e == Events[v_l]
         n == NPix + e.delta
         want == IF n % Cols0 # 0 THEN "DataSize" ELSE IF SizeByDims(n \div Cols0, Cols0) = {} THEN "SymbolSize" ELSE "AnyErr" IN
     v_fails' = v_fails
       \cup (IF e.parse.kind \notin {"Ok", "Err"} THEN {"C05.parsePanic"} ELSE {})
       \cup (IF e.decode.kind \notin {"Ok", "Err"} THEN {"C05.decodePanic"} ELSE {})
       \cup (IF e.delta # 0 /\ e.parse.kind = "Ok" THEN {"C08.acceptsDeviation"} ELSE {})
       \cup (IF e.delta # 0 /\ e.parse.kind = "Err" /\ want # "AnyErr" /\ e.parse.err # want THEN {"C08.shapeError"} ELSE {})
       \cup (IF e.delta # 0 /\ e.decode.kind = "Ok" THEN {"C08.decodeAcceptsDeviation"} ELSE {})
  /\ v_l' = v_l + 1 /\ UNCHANGED v_c

Next == EvRender \/ EvReadBack \/ EvFlip \/ EvResize
Terminal == v_l = Len(Events) + 1 \/ ~(S0 \in Names /\ Len(Cw) = Total(S0))
FinalFails == v_fails \cup (IF S0 \in Names /\ Len(Cw) = Total(S0) THEN {} ELSE {"C08.badCase"})
Verdict == Terminal => PrintT(ToJson([id |-> Case.id, fails |-> FinalFails, n |-> v_l - 1]))
=============================================================================
