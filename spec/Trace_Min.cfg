INIT Init
NEXT Next
VIEW View
INVARIANT Minimal
CHECK_DEADLOCK FALSE
