----------------------------- MODULE Trace_Min -----------------------------
(***************************************************************************)
(* C10 (minimality): for every recorded encoding case the Writer machine   *)
(* is run against every listed capacity strictly below the one the         *)
(* implementation chose (all listed capacities if it refused).  If any      *)
(* behaviour of the strict reference encoder completes, a valid encoding    *)
(* fits a smaller listed symbol: the behaviour's stream is printed as a     *)
(* WITNESS (the driver has the implementation's own decoder confirm it).    *)
(* The stream itself is hidden from the fingerprint by VIEW.                *)
(***************************************************************************)
EXTENDS Writer, Symbols, Json, IOUtils

Cases == ndJsonDeserialize(IOEnv.TRACE)
VARIABLES v_c, v_cap, v_wr, v_stream
Case == Cases[v_c]
Inp == Case.input
ModeNames == <<"ascii", "c40", "text", "x12", "edifact", "b256">>
EnOf(mask) == {ModeNames[i] : i \in {i \in 1..6 : (mask \div (2 ^ (i - 1))) % 2 = 1}}
Head05 == <<91, 41, 62, 30, 48, 53, 29>>
Head06 == <<91, 41, 62, 30, 48, 54, 29>>
IsPrefixOf(p, s) == Len(p) <= Len(s) /\ SubSeq(s, 1, Len(p)) = p
MacroDue(cs) == cs.macro /\ ~cs.fnc1 /\ Len(cs.input) >= 9 /\ (IsPrefixOf(Head05, cs.input) \/ IsPrefixOf(Head06, cs.input))
                /\ cs.input[Len(cs.input) - 1] = 30 /\ cs.input[Len(cs.input)] = 4
Body(cs) == IF MacroDue(cs) THEN SubSeq(cs.input, 8, Len(cs.input) - 2) ELSE cs.input
EciCw(n) == IF n < 0 THEN <<>> ELSE IF n <= 126 THEN <<241, n + 1>>
            ELSE IF n <= 16382 THEN <<241, ((n - 127) \div 254) + 128, ((n - 127) % 254) + 1>>
            ELSE <<241, ((n - 16383) \div 64516) + 192, (((n - 16383) \div 254) % 254) + 1, ((n - 16383) % 254) + 1>>
Prefix(cs) == (IF cs.fnc1 THEN <<232>> ELSE <<>>)
              \o (IF MacroDue(cs) THEN (IF IsPrefixOf(Head05, cs.input) THEN <<236>> ELSE <<237>>) ELSE <<>>)
              \o EciCw(cs.eci)
\* capacity chosen by the implementation (a large number if it refused)
ImplCap(cs) == LET r == cs.events[1].res IN
               IF r.kind = "Ok" /\ r.size \in Names THEN Cap(r.size) ELSE 100000
Candidates(cs) == IF cs.events[1].res.kind \in {"Ok", "TooMuch"}
                  THEN {cs.caps[k] : k \in 1..Len(cs.caps)} \cap 0..(ImplCap(cs) - 1) ELSE {}

Init == /\ v_c \in 1..Len(Cases)
        /\ v_cap \in Candidates(Cases[v_c])
        /\ v_wr = WInit(Len(Prefix(Cases[v_c]))) /\ v_stream = Prefix(Cases[v_c])
Next == /\ ~v_wr.done
        /\ \E s \in Succ(v_wr, Body(Case), v_cap, EnOf(Case.modes)) :
             /\ WNeed(s[1]) <= v_cap /\ s[1].idle = 0
             /\ v_wr' = s[1] /\ v_stream' = v_stream \o s[2]
        /\ UNCHANGED <<v_c, v_cap>>
View == <<v_c, v_cap, WView(v_wr)>>
Minimal == v_wr.done => PrintT(ToJson([id |-> Case.id, cap |-> v_cap, stream |-> v_stream, expect |-> Inp]))
=============================================================================
