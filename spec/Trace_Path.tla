----------------------------- MODULE Trace_Path -----------------------------
(***************************************************************************)
(* Trace specification for the "path" family (C17): the segment list        *)
(* returned by Bitmap::path() is fed, one segment per TLC step, to the pen  *)
(* machine of Path.tla; at the end every sub-path must be closed and the    *)
(* even-odd fill must be exactly the dark modules.  The pixel iterator and  *)
(* the Unicode rendering are compared with their closed forms.              *)
(***************************************************************************)
EXTENDS Path, Json, IOUtils, TLC
Cases == ndJsonDeserialize(IOEnv.TRACE)
VARIABLES v_c, v_l, v_pen, v_ve, v_fails
Case == Cases[v_c]
W0 == Case.w
H0 == Case.h
Segs == Case.path.segs
Init == /\ v_c \in 1..Len(Cases) /\ v_l = 1 /\ v_fails = {}
        /\ v_pen = PenInit /\ v_ve = IF Cases[v_c].path.kind = "Ok" THEN EdgesInit(Cases[v_c].w, Cases[v_c].h) ELSE <<>>
Segment ==
  /\ Case.path.kind = "Ok" /\ v_l <= Len(Segs) /\ v_pen.bad = ""
  /\ LET r == PenStep(v_pen, v_ve, Segs[v_l], W0, H0) IN v_pen' = r[1] /\ v_ve' = r[2]
  /\ v_l' = v_l + 1 /\ UNCHANGED <<v_c, v_fails>>
Next == Segment
Terminal == Case.path.kind # "Ok" \/ v_l = Len(Segs) + 1 \/ v_pen.bad # ""
AnyDark == \E i \in 1..Len(Case.px) : Case.px[i] = 1
FinalFails ==
  (IF Case.path.kind # "Ok" THEN {"C17.pathPanic"}
   ELSE (IF v_pen.bad # "" THEN {"C17.segment"} ELSE {})
        \cup (IF v_pen.bad = "" /\ Len(Segs) > 0 /\ v_pen.open THEN {"C17.notClosed"} ELSE {})
        \cup (IF v_pen.bad = "" /\ Len(Segs) = 0 /\ AnyDark THEN {"C17.emptyPath"} ELSE {})
        \cup (IF v_pen.bad = "" /\ ~PFilled(v_ve, Case.px, W0, H0) THEN {"C17.fill"} ELSE {}))
  \cup (IF "pixels" \in DOMAIN Case THEN
          (IF Case.pixels.kind # "Ok" THEN {"C17.pixelsPanic"}
           ELSE IF Case.pixels.coords # PixelsExpect(Case.px, W0) THEN {"C17.pixels"} ELSE {})
        ELSE {})
  \cup (IF "unicode" \in DOMAIN Case THEN
          (IF Case.unicode.kind # "Ok" THEN {"C17.unicodePanic"}
           ELSE IF Case.unicode.cps # UnicodeExpect(Case.px, W0, H0) THEN {"C17.unicode"} ELSE {})
        ELSE {})
Verdict == Terminal => PrintT(ToJson([id |-> Case.id, fails |-> FinalFails, at |-> v_l, bad |-> v_pen.bad]))
=============================================================================
