---------------------------- MODULE Trace_Place ----------------------------
(***************************************************************************)
(* Trace specification for the "place" family: the implementation's        *)
(* traversal of a mapping matrix, recorded as Visit(codeword, 8 cells)      *)
(* events in the order MatrixMap::traverse_mut yields them, must be the     *)
(* sequence of placements of the Annex F machine of Placement.tla (same     *)
(* codeword number, same eight cells, MSB first).  C07.                     *)
(***************************************************************************)
EXTENDS Placement, Json, IOUtils, TLC

Cases == ndJsonDeserialize(IOEnv.TRACE)
VARIABLES v_c, v_l, v_pst, v_fails
Case == Cases[v_c]
Events == Case.events

Init == /\ v_c \in 1..Len(Cases) /\ v_l = 1 /\ v_fails = {}
        /\ v_pst = IF Cases[v_c].size \in Names THEN PStart(MapRows(Cases[v_c].size), MapCols(Cases[v_c].size))
                   ELSE [PStart(2, 2) EXCEPT !.pc = "done"]

Matches(placed) ==
  /\ v_l + Len(placed) - 1 <= Len(Events)
  /\ \A pj \in 1..Len(placed) :
       LET e == Events[v_l + pj - 1] IN e.ev = "Visit" /\ e.cw = placed[pj][1] /\ e.cells = placed[pj][2]

\* one statement of the Annex F program; the placements it makes consume the next Visit events
Statement ==
  /\ v_pst.pc # "done" /\ v_fails = {}
  /\ LET nx == PStep(v_pst) IN
     /\ v_pst' = nx
     /\ IF Matches(nx.placed) THEN v_l' = v_l + Len(nx.placed) /\ UNCHANGED v_fails
        ELSE v_l' = v_l /\ v_fails' = {"C07.visitMismatch"}
  /\ UNCHANGED v_c
Next == Statement

Terminal == v_pst.pc = "done" \/ v_fails # {}
FinalFails == v_fails
  \cup (IF Case.size \notin Names THEN {"C07.unknownSize"} ELSE {})
  \cup (IF v_fails = {} /\ v_l # Len(Events) + 1 THEN {"C07.extraVisits"} ELSE {})
  \cup (IF "panic" \in DOMAIN Case THEN {"C07.panic"} ELSE {})
Verdict == Terminal => PrintT(ToJson([id |-> Case.id, fails |-> FinalFails, at |-> v_l, chr |-> v_pst.chr]))
=============================================================================
