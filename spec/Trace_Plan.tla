----------------------------- MODULE Trace_Plan -----------------------------
(***************************************************************************)
(* Trace specification for the "plan" family (C18: planning agrees with    *)
(* encoding).  Events: Plan(data, list, modes) -> plan | None (with the     *)
(* hook's cost of the chosen plan), Encode(data, list, modes) -> stream.    *)
(* The produced stream is read by the ISO/IEC 16022 reader of Stream.tla    *)
(* (silent steps); the latches it sees must be exactly the non-ASCII modes  *)
(* to which the plan assigns at least one character, in the same order.     *)
(***************************************************************************)
EXTENDS Stream, Symbols, Json, IOUtils

Cases == ndJsonDeserialize(IOEnv.TRACE)
VARIABLES v_c, v_l, v_rd, v_fails
Case == Cases[v_c]
Events == Case.events
Inp == Case.input
ModeNames == <<"ascii", "c40", "text", "x12", "edifact", "b256">>
EnOf(mask) == {ModeNames[i] : i \in {i \in 1..6 : (mask \div (2 ^ (i - 1))) % 2 = 1}}
En == EnOf(Case.modes)
ListSet == {Case.list[i] : i \in 1..Len(Case.list)}
PlanRes == Events[1].res
EncRes == Events[2].res
Plan == PlanRes.plan
\* non-ASCII modes with at least one character, in plan order
PlanSegs(pl) == LET idx == SelectSeq([i \in 1..(Len(pl) - 1) |-> i], LAMBDA i : pl[i][1] - pl[i + 1][1] > 0 /\ pl[i][2] # "ascii")
                IN [k \in 1..Len(idx) |-> pl[idx[k]][2]]
PlanOK(pl) ==
  /\ Len(pl) >= 1 /\ pl[Len(pl)][1] = 0
  /\ \A i \in 1..Len(pl) : pl[i][2] \in En /\ pl[i][1] <= Len(Inp) /\ pl[i][1] >= 0
  /\ \A i \in 1..(Len(pl) - 1) : pl[i][1] >= pl[i + 1][1]

Init == v_c \in 1..Len(Cases) /\ v_l = 1 /\ v_fails = {} /\ v_rd = [RInit EXCEPT !.status = "idle"]
IsEvent(ename) == v_l <= Len(Events) /\ Events[v_l].ev = ename /\ v_rd.status # "run"
EvPlan ==
  /\ IsEvent("Plan")
  /\ v_fails' = v_fails
       \cup (IF PlanRes.kind \notin {"Some", "None"} THEN {"C18.planPanic"} ELSE {})
       \cup (IF PlanRes.kind = "Some" /\ ~PlanOK(Plan) THEN {"C18.planShape"} ELSE {})
  /\ v_l' = v_l + 1 /\ UNCHANGED <<v_c, v_rd>>
EvEncode ==
  /\ IsEvent("Encode")
  /\ LET ok == EncRes.kind = "Ok" IN
     /\ v_fails' = v_fails
          \cup (IF EncRes.kind \notin {"Ok", "Err"} THEN {"C18.encodePanic"} ELSE {})
          \cup (IF ok /\ PlanRes.kind = "None" THEN {"C18.noPlanButEncodes"} ELSE {})
          \* predicted size: first listed symbol holding ceil(cost) codewords
          \cup (IF ok /\ PlanRes.kind = "Some" /\ "chosen" \in DOMAIN Events[1].hook /\ EncRes.size \in Names
                   /\ LET need == (Events[1].hook.chosen.cost12 + 11) \div 12
                          pred == FirstBigEnough(Case.list, need) IN
                      pred # "None" /\ Cap(EncRes.size) > Cap(pred)
                THEN {"C18.largerThanPredicted"} ELSE {})
     /\ v_rd' = IF ok /\ Len(EncRes.data) > 0 THEN RInit ELSE v_rd
  /\ v_l' = v_l + 1 /\ UNCHANGED v_c
Read == /\ v_rd.status = "run" /\ v_rd' = RStep(v_rd, EncRes.data, Inp, En) /\ UNCHANGED <<v_c, v_l, v_fails>>
Next == EvPlan \/ EvEncode \/ Read
Terminal == v_l = Len(Events) + 1 /\ v_rd.status # "run"
ReaderFails ==
  IF v_rd.status = "idle" \/ PlanRes.kind # "Some" \/ ~PlanOK(Plan) THEN {}
  ELSE (IF v_rd.status = "done" /\ v_rd.latches # PlanSegs(Plan) THEN {"C18.latchSequence"} ELSE {})
Verdict == Terminal => PrintT(ToJson([id |-> Case.id, fails |-> v_fails \cup ReaderFails, latches |-> v_rd.latches,
                                      rstatus |-> v_rd.status]))
=============================================================================
