--------------------------- MODULE Trace_Planner ---------------------------
(***************************************************************************)
(* Trace specification for the planner hook's per-iteration events (C19):  *)
(* every Iterate event must be a step of the frontier machine of           *)
(* Planner.tla with the six encodation modes: every live plan stepped      *)
(* exactly once, at most one switch attempt per live plan and at most five *)
(* new plans per attempt, no two surviving plans with the same (start,     *)
(* current) pair, at most 36 alive, and the cumulative number of candidate *)
(* steps stays below 216 (it + 1) + 6.                                     *)
(* Clauses named C19.* are what the property states (no duplicate pair,    *)
(* <= 36 alive, linear step count, termination); clauses named M19.* say   *)
(* that an event is not a step of THIS model of the implementation (each   *)
(* live plan stepped exactly once, <= 1 switch call per plan, <= 5 spawned *)
(* per call, pruning never adds, consecutive iteration numbers <= n): a    *)
(* different but still linear design would show up there - the driver      *)
(* reports them as model deviations, not as violations of C19.             *)
(***************************************************************************)
EXTENDS Integers, Sequences, FiniteSets, Json, IOUtils, TLC
Cases == ndJsonDeserialize(IOEnv.TRACE)
VARIABLES v_c, v_l, v_alive, v_steps, v_it, v_fails
Case == Cases[v_c]
Events == Case.events
Init == /\ v_c \in 1..Len(Cases) /\ v_l = 1 /\ v_fails = {}
        /\ v_alive = Cases[v_c].prevAlive /\ v_steps = Cases[v_c].stepsBefore /\ v_it = -1
EvIterate ==
  /\ v_l <= Len(Events)
  /\ LET e == Events[v_l]
         pairs == {<<e.alive[i][1], e.alive[i][2]>> : i \in 1..Len(e.alive)}
         st == v_steps + e.stepped + 5 * e.calls IN
     /\ v_fails' = v_fails
          \cup (IF e.stepped # v_alive THEN {"M19.everyPlanStepsOnce"} ELSE {})
          \cup (IF e.calls > e.stepped THEN {"M19.switchCalls"} ELSE {})
          \cup (IF e.spawned > 5 * e.calls \/ e.before > e.stepped + e.spawned THEN {"M19.spawnBound"} ELSE {})
          \cup (IF Cardinality(pairs) # Len(e.alive) THEN {"C19.duplicatePair"} ELSE {})
          \cup (IF e.aliveCount > 36 THEN {"C19.aliveBound"} ELSE {})
          \cup (IF ~(pairs \subseteq (0..5) \X (0..5)) THEN {"C19.pairRange"} ELSE {})
          \cup (IF e.aliveCount > e.before THEN {"M19.pruneGrows"} ELSE {})
          \cup (IF st > 216 * (e.it + 1) + 6 THEN {"C19.linear"} ELSE {})
          \cup (IF v_it >= 0 /\ e.it # v_it + 1 THEN {"M19.iterationOrder"} ELSE {})
          \cup (IF e.it > 2 * Case.n + 2 THEN {"C19.tooManyIterations"} ELSE {})
          \cup (IF e.it > Case.n THEN {"M19.iterations"} ELSE {})
     /\ v_alive' = e.aliveCount /\ v_steps' = st /\ v_it' = e.it
  /\ v_l' = v_l + 1 /\ UNCHANGED v_c
Next == EvIterate
Terminal == v_l = Len(Events) + 1
FinalFails == v_fails
  \cup (IF "panic" \in DOMAIN Case THEN {"C19.panic"} ELSE {})
  \cup (IF "hang" \in DOMAIN Case THEN {"C19.hang"} ELSE {})
  \cup (IF "ms" \in DOMAIN Case /\ Case.ms > 10000 THEN {"C19.slow"} ELSE {})
  \cup (IF "start" \in DOMAIN Case /\ "seeds" \in DOMAIN Case.start /\ Case.start.seeds > 5 THEN {"M19.seeds"} ELSE {})
  \* the whole planning work of one encode_data() call: the same linear bound, whatever the number of planner invocations
  \cup (IF "enc" \in DOMAIN Case /\ Case.enc.steps > 216 * (Case.n + 1) + 6 THEN {"C19.encodePlanningWork"} ELSE {})
  \cup (IF "enc" \in DOMAIN Case /\ Case.enc.kind \notin {"Ok", "Err"} THEN {"C19.encodePanic"} ELSE {})
  \cup (IF "enc" \in DOMAIN Case /\ Case.enc.ms > 10000 THEN {"C19.slow"} ELSE {})
Verdict == Terminal => PrintT(ToJson([id |-> Case.id, fails |-> FinalFails, steps |-> v_steps, it |-> v_it]))
=============================================================================
