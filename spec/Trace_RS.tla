------------------------------ MODULE Trace_RS ------------------------------
(***************************************************************************)
(* Trace specification for the "rs" event family (the Channel machine):    *)
(*   EncodeEcc(size, data) -> ecc . Corrupt(errs) . Correct -> result      *)
(* TLC recomputes, with its own field arithmetic and interleaving, the     *)
(* syndromes of the sent and of the corrected word and the per-block       *)
(* distance between sent and received word.  Clauses for C03 C05 C06 C09.  *)
(***************************************************************************)
EXTENDS ReedSolomon, Json, IOUtils, TLC

Cases == ndJsonDeserialize(IOEnv.TRACE)

VARIABLES v_c, v_l, v_recv, v_fails, v_info
vars == <<v_c, v_l, v_recv, v_fails, v_info>>

Case   == Cases[v_c]
Events == Case.events
Sz0    == Case.size
Sent   == Case.sent
Patch(ww, fix) == FoldLeft(LAMBDA pw, pf : [pw EXCEPT ![pf[1]] = pf[2]], ww, fix)
XorAt(ww, errs) == FoldLeft(LAMBDA pw, pe : [pw EXCEPT ![pe[1]] = @ ^^ pe[2]], ww, errs)

Init == /\ v_c \in 1..Len(Cases) /\ v_l = 1 /\ v_recv = <<>> /\ v_fails = {} /\ v_info = <<>>
IsEvent(ename) == v_l <= Len(Events) /\ Events[v_l].ev = ename

\* C06: the encoder's output
EvEncodeEcc ==
  /\ IsEvent("EncodeEcc")
  /\ LET res == Events[v_l].res IN
     v_fails' = v_fails \cup
       (IF res.kind # "Ok" THEN {"C06.encodePanic"}
        ELSE (IF Len(res.ecc) # NumEc(Sz0) THEN {"C06.eccLen"} ELSE {})
             \cup (IF Len(res.ecc) = NumEc(Sz0) /\ Case.hasSent /\ ~IsCodeword(Sz0, Sent) THEN {"C06.notCodeword"} ELSE {})
             \* a unit vector at a block's last data position makes the block equal the generator polynomial
             \cup (IF Case.stratum = "unit" /\ Len(res.ecc) = NumEc(Sz0) /\ Case.hasSent
                      /\ \E bb \in 0..(Blocks(Sz0) - 1) :
                           LET bw == RsBlockWord(Sz0, Sent, bb)  nd == Len(bw) - EcBlock(Sz0) IN
                           /\ bw[nd] = 1 /\ \A ri \in 1..(nd - 1) : bw[ri] = 0
                           /\ SubSeq(bw, nd, Len(bw)) # GfGen(EcBlock(Sz0))
                   THEN {"C06.generator"} ELSE {}))
  /\ v_recv' = IF Case.hasSent THEN XorAt(Sent, Case.errs) ELSE v_recv
  /\ v_l' = v_l + 1 /\ UNCHANGED <<v_c, v_info>>

Recv == IF Case.hasSent THEN v_recv ELSE Case.recv

EvCorrect ==
  /\ IsEvent("Correct")
  /\ LET res == Events[v_l].res
         rcv == Recv
         lenOk == Len(rcv) = Total(Sz0)
         within == Case.hasSent /\ lenOk /\ RsWithinCapacity(Sz0, Sent, rcv)
         word == IF res.kind = "Ok" THEN Patch(rcv, res.fix) ELSE <<>>
     IN
     /\ v_fails' = v_fails
          \cup (IF res.kind \notin {"Ok", "Err"} THEN {"C05.correctPanic"} ELSE {})
          \* C03: within capacity => success and exactly the sent word (premise: sent is a codeword)
          \cup (IF within /\ ~(res.kind = "Ok" /\ word = Sent) /\ IsCodeword(Sz0, Sent) THEN {"C03.notRepaired"} ELSE {})
          \* C09: success => the word left behind is a codeword
          \cup (IF res.kind = "Ok" /\ lenOk /\ ~IsCodeword(Sz0, word) THEN {"C09.okNonCodeword"} ELSE {})
     /\ v_info' = IF lenOk
                  THEN <<within, [bb \in 0..(Blocks(Sz0) - 1) |-> RsLeadingZeros(RsSyndromes(Sz0, rcv, bb))]>>
                  ELSE <<within, <<>>>>
  /\ v_l' = v_l + 1 /\ UNCHANGED <<v_c, v_recv>>

\* an implementation hang is recorded as a single Hang event: matched by no action of the Channel
EvHang == /\ IsEvent("Hang") /\ v_fails' = v_fails \cup {"C05.hang"} /\ v_l' = v_l + 1 /\ UNCHANGED <<v_c, v_recv, v_info>>

Next == EvEncodeEcc \/ EvCorrect \/ EvHang

Terminal == v_l = Len(Events) + 1
Verdict == Terminal =>
  PrintT(ToJson([id |-> Case.id, fails |-> v_fails, info |-> v_info]))
=============================================================================
