---------------------------- MODULE Trace_Shapes ----------------------------
(***************************************************************************)
(* Trace specification for the "shapes" family: try_from_bits / decode on  *)
(* arbitrary (width, length) pixel arrays.  Expected classification:       *)
(*   width = 0 -> ZeroWidth;  length not a multiple of width -> DataSize;   *)
(*   no symbol with these dimensions -> SymbolSize;  otherwise accepted     *)
(*   iff the array is bit for bit a rendering (Render.tla), else rejected   *)
(*   with Alignment or Padding.   C08 (shape errors), C05 (no panic).       *)
(***************************************************************************)
EXTENDS Render, Json, IOUtils, TLC

Cases == ndJsonDeserialize(IOEnv.TRACE)
VARIABLES v_c, v_l, v_fails
Case == Cases[v_c]
Events == Case.events
W0 == Case.w
N0 == Case.n
Fits == IF W0 = 0 \/ N0 % W0 # 0 THEN {} ELSE SizeByDims(N0 \div W0, W0)
\* sizes whose placement is needed: dimension matches with logged pixels
SizesUsed == UNION {IF "px" \in DOMAIN Cases[gi] /\ Cases[gi].w # 0 /\ Cases[gi].n % Cases[gi].w = 0
                    THEN SizeByDims(Cases[gi].n \div Cases[gi].w, Cases[gi].w) ELSE {} : gi \in 1..Len(Cases)}
GTab == FoldLeft(LAMBDA gacc, gn : gacc @@ (gn :> RTables(gn)), <<>>, SetToSeq(SizesUsed))

Expect ==
  IF W0 = 0 THEN "ZeroWidth"
  ELSE IF N0 % W0 # 0 THEN "DataSize"
  ELSE IF Fits = {} THEN "SymbolSize"
  ELSE LET sz == CHOOSE gs \in Fits : TRUE IN
       IF Case.fill \in {"zeros", "ones"} THEN "Reject"
       ELSE IF RIsRendering(sz, GTab[sz].arr, Case.px) THEN "Accept" ELSE "Reject"

Init == v_c \in 1..Len(Cases) /\ v_l = 1 /\ v_fails = {}
IsEvent(ename) == v_l <= Len(Events) /\ Events[v_l].ev = ename

EvParse ==
  /\ IsEvent("Parse")
  /\ LET res == Events[v_l].res  ex == Expect IN
     v_fails' = v_fails
       \cup (IF res.kind \notin {"Ok", "Err"} THEN {"C05.parsePanic"} ELSE {})
       \cup (IF ex \in {"ZeroWidth", "DataSize", "SymbolSize"} /\ ~(res.kind = "Err" /\ res.err = ex) THEN {"C08.shapeError"} ELSE {})
       \cup (IF ex = "Reject" /\ res.kind = "Ok" THEN {"C08.acceptsDeviation"} ELSE {})
       \cup (IF ex = "Reject" /\ res.kind = "Err" /\ res.err \notin {"Alignment", "Padding"} THEN {"C08.wrongError"} ELSE {})
       \cup (IF ex = "Accept" /\ ~(res.kind = "Ok" /\ res.size \in Fits) THEN {"C08.rejectsValid"} ELSE {})
  /\ v_l' = v_l + 1 /\ UNCHANGED v_c
EvDecode ==
  /\ IsEvent("Decode")
  /\ v_fails' = v_fails
       \cup (IF Events[v_l].res.kind \notin {"Ok", "Err"} THEN {"C05.decodePanic"} ELSE {})
       \cup (IF Expect \notin {"Accept"} /\ Events[v_l].res.kind = "Ok" THEN {"C08.decodeAcceptsDeviation"} ELSE {})
  /\ v_l' = v_l + 1 /\ UNCHANGED v_c
Next == EvParse \/ EvDecode
Terminal == v_l = Len(Events) + 1
Verdict == Terminal => PrintT(ToJson([id |-> Case.id, fails |-> v_fails, expect |-> Expect]))
=============================================================================
