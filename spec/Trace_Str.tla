----------------------------- MODULE Trace_Str -----------------------------
(***************************************************************************)
(* Trace specification for the "str" family: the string API (C14) and the  *)
(* ECI designators / character set tables (C15).  Strings are sequences of  *)
(* code points.                                                            *)
(*   EncodeStr(cps) -> stream:  the reader of Stream.tla is stepped over   *)
(*      the stream (silent steps) and must produce the Latin-1 bytes       *)
(*      without any ECI, or ECI 26 at the start of the body followed by     *)
(*      the UTF-8 bytes.   DecodeStr(stream) -> cps.                       *)
(*   helper tables, designators, character set bytes, UTF-8 validity: each  *)
(*      batch is compared entry by entry with Eci.tla / Charsets.tla.      *)
(***************************************************************************)
EXTENDS Stream, Charsets, Eci, Json, IOUtils

Cases == ndJsonDeserialize(IOEnv.TRACE)
VARIABLES v_c, v_l, v_rd, v_fails
Case == Cases[v_c]
Events == Case.events
E == Events[v_l]
AllModes == {"ascii", "c40", "text", "x12", "edifact", "b256"}

Head05 == <<91, 41, 62, 30, 48, 53, 29>>
Head06 == <<91, 41, 62, 30, 48, 54, 29>>
IsPrefixOf(p, s) == Len(p) <= Len(s) /\ SubSeq(s, 1, Len(p)) = p
Latin1Case(cs) == \A i \in 1..Len(cs.cps) : IsPrintableLatin1(cs.cps[i])
ExpBytes(cs) == IF Latin1Case(cs) THEN cs.cps ELSE Utf8(cs.cps)
MacroDue(cs) == LET b == ExpBytes(cs) IN
                cs.macro /\ Len(b) >= 9 /\ (IsPrefixOf(Head05, b) \/ IsPrefixOf(Head06, b)) /\ b[Len(b) - 1] = 30 /\ b[Len(b)] = 4

Init == v_c \in 1..Len(Cases) /\ v_l = 1 /\ v_fails = {} /\ v_rd = [RInit EXCEPT !.status = "idle"]
IsEvent(ename) == v_l <= Len(Events) /\ Events[v_l].ev = ename /\ v_rd.status # "run"
Step(newFails) == v_fails' = v_fails \cup newFails /\ v_l' = v_l + 1 /\ UNCHANGED v_c

EvEncodeStr ==
  /\ IsEvent("EncodeStr")
  /\ Step(IF E.res.kind \notin {"Ok", "Err"} THEN {"C14.encodePanic"} ELSE {})
  /\ v_rd' = IF E.res.kind = "Ok" /\ Len(E.res.data) > 0 THEN RInit ELSE v_rd
Read == /\ v_rd.status = "run" /\ v_rd' = RStep(v_rd, Events[1].res.data, ExpBytes(Case), AllModes) /\ UNCHANGED <<v_c, v_l, v_fails>>
EvDecodeStr ==
  /\ IsEvent("DecodeStr")
  /\ Step((IF E.res.k = "panic" THEN {"C14.decodePanic"} ELSE {})
          \cup (IF ~(E.res.k = "ok" /\ E.res.cps = Case.cps) THEN {"C14.roundTrip"} ELSE {}))
  /\ UNCHANGED v_rd

\* helper tables
EvUtf8ToLatin1 ==
  /\ IsEvent("Utf8ToLatin1")
  /\ Step(IF \A i \in 1..Len(E.res) :
               LET cp == E.start + i - 1 IN
               E.res[i] = (IF ~IsScalar(cp) THEN -2 ELSE IF IsPrintableLatin1(cp) THEN cp ELSE -1)
          THEN {} ELSE {"C14.utf8ToLatin1"})
  /\ UNCHANGED v_rd
EvLatin1ToUtf8 ==
  /\ IsEvent("Latin1ToUtf8")
  /\ Step(IF Len(E.res) = 256 /\ \A i \in 1..256 : E.res[i] = CsChar(3, i - 1) THEN {} ELSE {"C14.latin1ToUtf8"})
  /\ UNCHANGED v_rd
EvLatin1RoundTrip ==
  /\ IsEvent("Latin1RoundTrip")
  /\ LET ok == \A i \in 1..Len(E.bytes) : CsChar(3, E.bytes[i]) >= 0 IN
     Step(IF ok THEN (IF E.res.k = "some" /\ E.res.cps = E.bytes /\ E.res.back.k = "some" /\ E.res.back.bytes = E.bytes THEN {} ELSE {"C14.latin1Inverse"})
          ELSE (IF E.res.k = "none" THEN {} ELSE {"C14.latin1Domain"}))
  /\ UNCHANGED v_rd

\* C15 (a): designators written by the encoder: data = 241, designator, then the pad 129
EvEncodeEci ==
  /\ IsEvent("EncodeEci")
  /\ Step(IF \A i \in 1..Len(E.ns) :
               LET d == EciCodewords(E.ns[i])  got == E.res[i] IN
               /\ Len(got) >= Len(d) + 1 /\ got[1] = 241 /\ SubSeq(got, 2, Len(d) + 1) = d
               /\ (Len(got) >= Len(d) + 2 => got[Len(d) + 2] = 129)       \* then padding (if the symbol is not full)
          THEN {} ELSE {"C15.designatorWritten"})
  /\ UNCHANGED v_rd
\* expected class of decode_str(241, designator, 'A')
\* The stream is <<241>> \o prefix \o <<c>> \o <<66>>.  The first codeword after 241 decides the designator's length L;
\* a designator shorter than prefix \o <<c>> does not occur in these batches, a longer one swallows the 66 or is truncated.
EvDesignators ==
  /\ IsEvent("Designators")
  /\ Step(IF \A i \in 1..256 :
               LET cws == E.prefix \o <<i - 1, 66>>
                   L == EciLength(cws[1])
                   want == IF L = 0 \/ L > Len(cws) THEN "rejected"
                           ELSE IF L < Len(cws) - 1 THEN "skip"
                           ELSE LET v == EciValue(SubSeq(cws, 1, L)) IN
                                IF v < 0 THEN "rejected" ELSE IF ~CsSupported(v) THEN "notimpl"
                                ELSE IF L = Len(cws) THEN "okEmpty" ELSE "ok"
                   r == E.res[i]
                   got == IF r.k = "ok" THEN (IF r.cps = <<65>> THEN "ok" ELSE IF r.cps = <<>> THEN "okEmpty" ELSE "wrong")
                          ELSE IF r.k \in {"rej", "end"} THEN "rejected" ELSE r.k
               \* a well-formed designator of a character set this model does not know must not be REJECTED as a designator;
               \* whether the implementation can then interpret the body is outside the property
               IN want = "skip" \/ got = want \/ (want = "notimpl" /\ got \notin {"rejected", "panic"})
          THEN {} ELSE {"C15.designatorRead"})
  /\ UNCHANGED v_rd
EvTruncated ==
  /\ IsEvent("Truncated")
  /\ Step(IF \E i \in 1..Len(E.res) : E.res[i].res.k = "panic" THEN {"C15.designatorPanic"} ELSE {})
  /\ UNCHANGED v_rd
\* C15 (c): every byte under a character set
EvCharsetBytes ==
  /\ IsEvent("CharsetBytes")
  /\ LET eci == IF E.eci < 0 THEN 0 ELSE E.eci IN
     Step(IF \A i \in 1..256 :
               LET cb == i - 1  r == E.res[i]  ch == CsDecodeChunk(eci, <<cb>>) IN
               IF ch[1] THEN r.k = "ok" /\ r.cps = ch[2] ELSE r.k = "charset"
          THEN {} ELSE {"C15.charsetTable"})
  /\ UNCHANGED v_rd
EvUtf8Pairs ==
  /\ IsEvent("Utf8Pairs")
  /\ Step(IF \A i \in 1..256 :
               LET bs == <<E.b1, i - 1>>  r == E.res[i] IN
               IF Utf8Valid(bs) THEN r.k = "ok" /\ r.cps = Utf8Decode(bs) ELSE r.k = "charset"
          THEN {} ELSE {"C15.utf8"})
  /\ UNCHANGED v_rd
EvUtf8Seqs ==
  /\ IsEvent("Utf8Seqs")
  /\ Step(IF \A i \in 1..Len(E.res) :
               LET bs == E.res[i].bytes  r == E.res[i].res IN
               IF Utf8Valid(bs) THEN r.k = "ok" /\ r.cps = Utf8Decode(bs) ELSE r.k = "charset"
          THEN {} ELSE {"C15.utf8"})
  /\ UNCHANGED v_rd
EvEciBody ==
  /\ IsEvent("EciBody")
  /\ LET ch == CsDecodeChunk(E.eci, E.bytes) IN
     Step(IF (IF ch[1] THEN E.res.k = "ok" /\ E.res.cps = ch[2] ELSE E.res.k = "charset") THEN {} ELSE {"C15.charsetBody"})
  /\ UNCHANGED v_rd

\* A stream that switches the ECI: chunks <<eci, bytes>> (eci = -1: no designator before the first chunk = default set).
\* After a macro codeword the header is interpreted as UTF-8 and the default set starts at the body; the trailer is UTF-8.
\* The string is the concatenation of the chunk decodings; the first failing chunk decides the error class.
EvEciSpans ==
  /\ IsEvent("EciSpans")
  /\ LET chs == E.chunks
         eciOf(k) == IF chs[k].eci < 0 THEN 0 ELSE chs[k].eci
         dec(k) == IF CsSupported(eciOf(k)) THEN CsDecodeChunk(eciOf(k), chs[k].bytes) ELSE <<FALSE, <<>>>>
         firstBad == LET bad == {k \in 1..Len(chs) : ~dec(k)[1]} IN IF bad = {} THEN 0 ELSE CHOOSE k \in bad : \A j \in bad : k <= j
         body == FoldLeft(LAMBDA acc, k : acc \o dec(k)[2], <<>>, [k \in 1..Len(chs) |-> k])
         head == IF E.macro = 236 THEN <<91, 41, 62, 30, 48, 53, 29>> ELSE IF E.macro = 237 THEN <<91, 41, 62, 30, 48, 54, 29>> ELSE <<>>
         trail == IF E.macro = 0 THEN <<>> ELSE <<30, 4>>
         want == IF firstBad = 0 THEN "ok" ELSE IF ~CsSupported(eciOf(firstBad)) /\ (Len(chs[firstBad].bytes) > 0 \/ TRUE) THEN "notimpl" ELSE "charset"
         \* a chunk under a character set this model does not know: only "no panic, no designator error" is required
         unknownSet == \E k \in 1..Len(chs) : ~CsSupported(eciOf(k))
     IN Step(IF (want = "ok" /\ E.res.k = "ok" /\ E.res.cps = head \o body \o trail) \/ (want # "ok" /\ E.res.k = want)
                \/ (unknownSet /\ E.res.k \in {"ok", "notimpl", "charset"})
             THEN {} ELSE {"C15.eciSpans"})
  /\ UNCHANGED v_rd

Next == EvEciSpans \/ EvEncodeStr \/ Read \/ EvDecodeStr \/ EvUtf8ToLatin1 \/ EvLatin1ToUtf8 \/ EvLatin1RoundTrip
        \/ EvEncodeEci \/ EvDesignators \/ EvTruncated \/ EvCharsetBytes \/ EvUtf8Pairs \/ EvUtf8Seqs \/ EvEciBody

Terminal == v_l = Len(Events) + 1 /\ v_rd.status # "run"
\* C14: what the reader saw in the stream produced by encode_str
ReaderFails ==
  IF v_rd.status = "idle" THEN {}
  ELSE (IF v_rd.status = "rej" \/ ~(v_rd.ok /\ v_rd.outLen = Len(ExpBytes(Case))) THEN {"C14.streamContent"} ELSE {})
       \cup (IF v_rd.status = "done" /\ Latin1Case(Case) /\ v_rd.ecis # <<>> THEN {"C14.eciOnLatin1"} ELSE {})
       \cup (IF v_rd.status = "done" /\ ~Latin1Case(Case)
                /\ ~(Len(v_rd.ecis) = 1 /\ v_rd.ecis[1][2] = 26 /\ v_rd.ecis[1][1] = (IF MacroDue(Case) THEN 7 ELSE 0))
             THEN {"C14.utf8Eci"} ELSE {})
Verdict == Terminal => PrintT(ToJson([id |-> Case.id, fails |-> v_fails \cup ReaderFails]))
=============================================================================
