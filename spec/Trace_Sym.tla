----------------------------- MODULE Trace_Sym -----------------------------
(***************************************************************************)
(* Trace specification for the "sym" family (C12): the catalogue           *)
(* attributes observed through the public API, and traces of SymbolList    *)
(* builder calls.  The SymbolList machine of Symbols.tla is stepped call   *)
(* by call; after every call the implementation's iteration order must be  *)
(* a legal order (non-decreasing capacity) of exactly the machine's set,   *)
(* and every Probe (ASCII-only encoding of n characters) must pick the     *)
(* first symbol of that order which is large enough.                       *)
(***************************************************************************)
EXTENDS Symbols, Json, IOUtils, TLC

Cases == ndJsonDeserialize(IOEnv.TRACE)
VARIABLES v_c, v_l, v_list, v_fails
Case == Cases[v_c]
Events == Case.events

Init == v_c \in 1..Len(Cases) /\ v_l = 1 /\ v_list = DefaultList /\ v_fails = {}
IsEvent(ename) == v_l <= Len(Events) /\ Events[v_l].ev = ename
E == Events[v_l]
SeqSet(sq) == {sq[si] : si \in 1..Len(sq)}

\* after every builder call: same set, legal order, emptiness flag
ListFails(newList) ==
  (IF SeqSet(E.list) # newList \/ Len(E.list) # Cardinality(newList) THEN {"C12.listContent"} ELSE {})
  \cup (IF ~(\A si \in 1..(Len(E.list) - 1) : E.list[si] \in Names /\ E.list[si + 1] \in Names /\ Cap(E.list[si]) <= Cap(E.list[si + 1]))
        THEN {"C12.iterationOrder"} ELSE {})
  \cup (IF E.empty # (newList = {}) THEN {"C12.isEmpty"} ELSE {})

Builder(ename, newList) ==
  /\ IsEvent(ename)
  /\ v_list' = newList
  /\ v_fails' = v_fails \cup ListFails(newList)
  /\ v_l' = v_l + 1 /\ UNCHANGED v_c

EvDefault   == Builder("Default", DefaultList)
EvExtended  == Builder("Extended", ExtendedList)
EvWhitelist == IsEvent("Whitelist") /\ Builder("Whitelist", Whitelist(E.names))
EvExtend    == IsEvent("Extend") /\ Builder("Extend", v_list \cup Whitelist(E.names))
EvSquare    == Builder("EnforceSquare", EnforceSquare(v_list))
EvRect      == Builder("EnforceRect", EnforceRect(v_list))
EvWidth     == IsEvent("EnforceWidth") /\ Builder("EnforceWidth", EnforceWidth(v_list, E.lo, E.hi))
EvHeight    == IsEvent("EnforceHeight") /\ Builder("EnforceHeight", EnforceHeight(v_list, E.lo, E.hi))

EvContains ==
  /\ IsEvent("Contains")
  /\ v_fails' = v_fails \cup (IF E.res # (E.name \in v_list) THEN {"C12.contains"} ELSE {}) \cup ListFails(v_list)
  /\ v_l' = v_l + 1 /\ UNCHANGED <<v_c, v_list>>

\* ASCII-only encoding of n characters needs exactly n codewords
EvProbe ==
  /\ IsEvent("Probe")
  /\ LET want == FirstBigEnough(E.list, E.n) IN
     v_fails' = v_fails \cup ListFails(v_list)
       \cup (IF E.res.kind \notin {"Ok", "Err"} THEN {"C12.probePanic"} ELSE {})
       \cup (IF SeqSet(E.list) = v_list /\ want # "None" /\ ~(E.res.kind = "Ok" /\ E.res.size = want) THEN {"C12.pickedSymbol"} ELSE {})
       \cup (IF SeqSet(E.list) = v_list /\ want = "None" /\ v_list # {} /\ ~(E.res.kind = "Err" /\ E.res.err = "TooMuchOrIllegalData") THEN {"C12.pickedSymbol"} ELSE {})
       \cup (IF v_list = {} /\ ~(E.res.kind = "Err" /\ E.res.err = "SymbolListEmpty") THEN {"C12.emptyListError"} ELSE {})
  /\ v_l' = v_l + 1 /\ UNCHANGED <<v_c, v_list>>

\* n digits in ASCII mode need ceil(n/2) codewords; 3m X12 characters in X12 mode need 2m+1 codewords (latch + m pairs; an
\* unlatch before the padding only if the symbol is not full, which never changes the symbol that is first large enough)
\* a macro 05 envelope around n digits is compacted to the macro codeword + the digits
ProbeNeed(kind, n) == IF kind = "ProbeDigits" THEN (n + 1) \div 2 ELSE IF kind = "ProbeMacro" THEN 1 + (n + 1) \div 2
                      ELSE IF n = 0 THEN 0 ELSE 2 * n + 1
EvProbe2 ==
  /\ (IsEvent("ProbeDigits") \/ IsEvent("ProbeX12") \/ IsEvent("ProbeMacro"))
  /\ LET want == FirstBigEnough(E.list, ProbeNeed(E.ev, E.n)) IN
     v_fails' = v_fails \cup ListFails(v_list)
       \cup (IF E.res.kind \notin {"Ok", "Err"} THEN {"C12.probePanic"} ELSE {})
       \cup (IF SeqSet(E.list) = v_list /\ want # "None" /\ ~(E.res.kind = "Ok" /\ E.res.size = want) THEN {"C12.pickedSymbol"} ELSE {})
       \cup (IF SeqSet(E.list) = v_list /\ want = "None" /\ v_list # {} /\ ~(E.res.kind = "Err" /\ E.res.err = "TooMuchOrIllegalData") THEN {"C12.pickedSymbol"} ELSE {})
       \cup (IF v_list = {} /\ ~(E.res.kind = "Err" /\ E.res.err = "SymbolListEmpty") THEN {"C12.emptyListError"} ELSE {})
  /\ v_l' = v_l + 1 /\ UNCHANGED <<v_c, v_list>>

\* catalogue attributes
EvAttr ==
  /\ IsEvent("Attr")
  /\ LET r == E.res  n == E.size IN
     v_fails' = v_fails \cup
       (IF n \notin Names THEN {"C12.unknownSize"}
        ELSE IF r.kind # "Ok" THEN {"C12.attrEncodeFailed"}
        ELSE (IF r.rows # Sz(n).rows \/ r.cols # Sz(n).cols THEN {"C12.dimensions"} ELSE {})
             \cup (IF r.data # Cap(n) THEN {"C12.dataCodewords"} ELSE {})
             \cup (IF r.total # Total(n) THEN {"C12.totalCodewords"} ELSE {})
             \cup (IF r.square # IsSquare(n) THEN {"C12.isSquare"} ELSE {})
             \cup (IF r.dmre # IsDmre(n) THEN {"C12.isDmre"} ELSE {})
             \cup (IF r.got # n THEN {"C12.singletonPick"} ELSE {}))
  /\ v_l' = v_l + 1 /\ UNCHANGED <<v_c, v_list>>
EvPanic == /\ IsEvent("Panic") /\ v_fails' = v_fails \cup {"C12.panic"} /\ v_l' = v_l + 1 /\ UNCHANGED <<v_c, v_list>>

Next == EvDefault \/ EvExtended \/ EvWhitelist \/ EvExtend \/ EvSquare \/ EvRect \/ EvWidth \/ EvHeight
        \/ EvContains \/ EvProbe \/ EvProbe2 \/ EvAttr \/ EvPanic

Terminal == v_l = Len(Events) + 1
\* all 48 sizes must have been observed in the attributes case
FinalFails == v_fails \cup (IF Case.stratum = "attributes" /\ {Events[si].size : si \in 1..Len(Events)} # Names THEN {"C12.catalogueSet"} ELSE {})
Verdict == Terminal => PrintT(ToJson([id |-> Case.id, fails |-> FinalFails, n |-> Cardinality(v_list)]))
=============================================================================
