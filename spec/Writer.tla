------------------------------- MODULE Writer -------------------------------
(***************************************************************************)
(* Nondeterministic REFERENCE ENCODER for ISO/IEC 16022 data codewords.    *)
(* Every behaviour of the machine is one strictly legal encoding of the    *)
(* byte string WD into a symbol of exactly wcap data codewords, using only *)
(* the encodation schemes in WEn.  The machine is deliberately STRICT - a  *)
(* subset of what the standard allows - because it is used as an oracle:   *)
(*   - C04: its streams are fed to the implementation's decoder;           *)
(*   - C10: if some behaviour fits a smaller symbol than the               *)
(*          implementation chose, the implementation is not minimal.       *)
(*                                                                         *)
(* State record:                                                           *)
(*   pos   next input position (1-based)       mode  current scheme        *)
(*   buf   pending C40/Text values (< 3)       grp   pending EDIFACT values*)
(*   w     codewords written so far            done  stream complete       *)
(*   tail  ASCII data is permitted although ASCII is not enabled (we are   *)
(*         inside one of the standard's end-of-data fallbacks)             *)
(*   fresh no character encoded since the last latch;  idle  number of     *)
(*         latch/unlatch pairs that encoded nothing (bounded by WMaxIdle)  *)
(*                                                                         *)
(* Succ(wr, ...) is the set of <<successor, codewords appended>>, the       *)
(* union of one set per form:                                              *)
(*   ASCII character / digit pair / upper shift, latch to each scheme,     *)
(*   Base256 run of every length (explicit 1- or 2-byte length, or length  *)
(*   0 = to the end of the symbol), C40/Text character (values may         *)
(*   straddle triples), unlatch at a triple boundary, end-of-symbol rules  *)
(*   a, b, c, d of 5.2.5.2 (read literally), X12 triple, X12 single        *)
(*   codeword rule (5.2.7.2), EDIFACT value, EDIFACT unlatch at any of the *)
(*   four positions, EDIFACT "at most two codewords left" rule (5.2.8.2),  *)
(*   padding (129 + 253-state randomised pads).                            *)
(***************************************************************************)
EXTENDS Integers, Sequences, SequencesExt, FiniteSets, TLC

WPad253(wp) == LET t == 129 + ((149 * wp) % 253) + 1 IN IF t <= 254 THEN t ELSE t - 254
WRnd255(wv, wp) == LET t == wv + ((149 * wp) % 255) + 1 IN IF t <= 255 THEN t ELSE t - 256

WIsDigit(ch) == ch \in 48..57
\* C40 / Text values of one input byte < 128 (sequence of 1 or 2 values)
WLowVals(wm, ch) ==
  IF ch = 32 THEN <<3>>
  ELSE IF ch \in 48..57 THEN <<ch - 44>>
  ELSE IF wm = "c40"  /\ ch \in 65..90  THEN <<ch - 51>>
  ELSE IF wm = "text" /\ ch \in 97..122 THEN <<ch - 83>>
  ELSE IF ch <= 31 THEN <<0, ch>>
  ELSE IF ch \in 33..47 THEN <<1, ch - 33>>
  ELSE IF ch \in 58..64 THEN <<1, ch - 43>>
  ELSE IF ch \in 91..95 THEN <<1, ch - 69>>
  ELSE IF wm = "c40" THEN <<2, ch - 96>>                                   \* ` a-z { | } ~ DEL
  ELSE IF ch = 96 THEN <<2, 0>> ELSE IF ch \in 65..90 THEN <<2, ch - 64>> ELSE <<2, ch - 96>>
WVals(wm, ch) == IF ch >= 128 THEN <<1, 30>> \o WLowVals(wm, ch - 128) ELSE WLowVals(wm, ch)
WPack3(wa, wb, wc) == LET v == 1600 * wa + 40 * wb + wc + 1 IN <<v \div 256, v % 256>>
WX12Native(ch) == ch \in {13, 42, 62, 32} \/ ch \in 48..57 \/ ch \in 65..90
WX12Val(ch) == CASE ch = 13 -> 0 [] ch = 42 -> 1 [] ch = 62 -> 2 [] ch = 32 -> 3
                 [] ch \in 48..57 -> ch - 44 [] OTHER -> ch - 51
WEdfOK(ch) == ch \in 32..94
WEdfCw(wk) == IF wk = 0 THEN 0 ELSE IF wk >= 3 THEN 3 ELSE wk      \* codewords holding the first wk values of a group
WEdfBytes(vals) ==
  LET v(i) == IF i <= Len(vals) THEN vals[i] ELSE 0
      bits == v(1) * 262144 + v(2) * 4096 + v(3) * 64 + v(4)
      all == <<bits \div 65536, (bits \div 256) % 256, bits % 256>>
  IN SubSeq(all, 1, WEdfCw(Len(vals)))
WAsciiCw(ch) == IF ch < 128 THEN <<ch + 1>> ELSE <<235, ch - 127>>

WInit(w0) == [pos |-> 1, mode |-> "ascii", buf |-> <<>>, grp |-> <<>>, w |-> w0, done |-> FALSE,
              tail |-> FALSE, fresh |-> FALSE, idle |-> 0]

Succ(wr, WD, wcap, WEn) ==
  LET n == Len(WD)  pos == wr.pos  w == wr.w  rem == wcap - wr.w
      adv(r, cws) == <<[r EXCEPT !.w = @ + Len(cws)], cws>>
      asciiOK == "ascii" \in WEn \/ wr.tail
      latch(m, cw) == IF m \in WEn /\ ~wr.tail THEN {adv([wr EXCEPT !.mode = m, !.fresh = TRUE], <<cw>>)} ELSE {}
      \* leave a non-ASCII scheme; an unlatch directly after the latch is an idle pair
      toAscii(r) == [r EXCEPT !.mode = "ascii", !.fresh = FALSE, !.idle = @ + (IF wr.fresh THEN 1 ELSE 0)]
  IN
  IF wr.done THEN {}
  ELSE IF wr.mode = "ascii" THEN
       (IF pos <= n THEN
            (IF asciiOK THEN
                {adv([wr EXCEPT !.pos = pos + 1], WAsciiCw(WD[pos]))}
                \cup (IF pos + 1 <= n /\ WIsDigit(WD[pos]) /\ WIsDigit(WD[pos + 1])
                      THEN {adv([wr EXCEPT !.pos = pos + 2], <<130 + (WD[pos] - 48) * 10 + (WD[pos + 1] - 48)>>)} ELSE {})
             ELSE {})
            \cup latch("c40", 230) \cup latch("text", 239) \cup latch("x12", 238) \cup latch("edifact", 240)
            \cup (IF "b256" \in WEn /\ ~wr.tail THEN
                    { LET body == (IF L <= 249 THEN <<L>> ELSE <<(L \div 250) + 249, L % 250>>) \o SubSeq(WD, pos, pos + L - 1)
                      IN adv([wr EXCEPT !.pos = pos + L], <<231>> \o [i \in 1..Len(body) |-> WRnd255(body[i], w + 1 + i)])
                      : L \in 1..(IF n - pos + 1 < 1555 THEN n - pos + 1 ELSE 1555) }
                    \cup (IF w + 2 + (n - pos + 1) = wcap
                          THEN { LET body == <<0>> \o SubSeq(WD, pos, n)
                                 IN adv([wr EXCEPT !.pos = n + 1, !.done = TRUE], <<231>> \o [i \in 1..Len(body) |-> WRnd255(body[i], w + 1 + i)]) }
                          ELSE {})
                  ELSE {})
        ELSE \* end of data in ASCII: pad up to the capacity
            {adv([wr EXCEPT !.done = TRUE],
                 IF rem = 0 THEN <<>> ELSE <<129>> \o [i \in 1..(rem - 1) |-> WPad253(w + 1 + i)])})
  ELSE IF wr.mode \in {"c40", "text"} THEN
       LET nb == Len(wr.buf)
           single == pos <= n /\ WD[pos] < 128 /\ Len(WVals(wr.mode, WD[pos])) = 1 IN
       (IF pos <= n THEN
            LET b2 == wr.buf \o WVals(wr.mode, WD[pos])
                nt == Len(b2) \div 3
                out == FoldLeft(LAMBDA acc, t : acc \o WPack3(b2[3 * t - 2], b2[3 * t - 1], b2[3 * t]), <<>>, [t \in 1..nt |-> t])
            IN {adv([wr EXCEPT !.pos = pos + 1, !.buf = SubSeq(b2, 3 * nt + 1, Len(b2)), !.fresh = FALSE], out)}
        ELSE {})
       \* explicit unlatch at a triple boundary (mid-message, or before padding)
       \cup (IF nb = 0 THEN {adv(toAscii(wr), <<254>>)} ELSE {})
       \* rule a: data ends on a triple boundary exactly at the end of the symbol
       \cup (IF nb = 0 /\ pos = n + 1 /\ rem = 0 THEN {adv([wr EXCEPT !.done = TRUE], <<>>)} ELSE {})
       \* rule b: two values remain, two codewords remain: third value is a pad (Shift 1)
       \cup (IF nb = 2 /\ pos = n + 1 /\ rem = 2
             THEN {adv([wr EXCEPT !.done = TRUE, !.buf = <<>>], WPack3(wr.buf[1], wr.buf[2], 0))} ELSE {})
       \* rule c: one single-value character remains, two codewords remain: unlatch, then the character in ASCII
       \cup (IF nb = 0 /\ pos = n /\ rem = 2 /\ single
             THEN {adv([wr EXCEPT !.pos = n + 1, !.done = TRUE], <<254, WD[pos] + 1>>)} ELSE {})
       \* rule d: one single-value character remains, one codeword remains: the character in ASCII, no unlatch
       \cup (IF nb = 0 /\ pos = n /\ rem = 1 /\ single
             THEN {adv([wr EXCEPT !.pos = n + 1, !.done = TRUE], <<WD[pos] + 1>>)} ELSE {})
  ELSE IF wr.mode = "x12" THEN
       (IF pos + 2 <= n /\ WX12Native(WD[pos]) /\ WX12Native(WD[pos + 1]) /\ WX12Native(WD[pos + 2])
        THEN {adv([wr EXCEPT !.pos = pos + 3, !.fresh = FALSE], WPack3(WX12Val(WD[pos]), WX12Val(WD[pos + 1]), WX12Val(WD[pos + 2])))} ELSE {})
       \* unlatch (X12 is always at a triple boundary); with ASCII disabled only to hand over the last one or two characters
       \cup {adv(toAscii(wr), <<254>>)}
       \cup (IF "ascii" \notin WEn /\ pos \in {n - 1, n} THEN {adv([toAscii(wr) EXCEPT !.tail = TRUE], <<254>>)} ELSE {})
       \cup (IF pos = n + 1 /\ rem = 0 THEN {adv([wr EXCEPT !.done = TRUE], <<>>)} ELSE {})
       \* 5.2.7.2: one character and one codeword remain: ASCII without unlatch
       \cup (IF pos = n /\ rem = 1 /\ WD[pos] < 128
             THEN {adv([wr EXCEPT !.pos = n + 1, !.done = TRUE], <<WD[pos] + 1>>)} ELSE {})
  ELSE IF wr.mode = "edifact" THEN
       LET k == Len(wr.grp) IN
       \* 5.2.8.2: at a group boundary with at most two codewords left the rest is ASCII (no unlatch)
       IF k = 0 /\ rem <= 2 THEN {<<[toAscii(wr) EXCEPT !.tail = TRUE], <<>>>>}
       ELSE
       (IF pos <= n /\ WEdfOK(WD[pos]) THEN
            LET g2 == Append(wr.grp, WD[pos] % 64) IN
            IF k = 3 THEN {adv([wr EXCEPT !.pos = pos + 1, !.grp = <<>>, !.fresh = FALSE], WEdfBytes(g2))}
            ELSE {<<[wr EXCEPT !.pos = pos + 1, !.grp = g2, !.fresh = FALSE], <<>>>>}
        ELSE {})
       \* unlatch value 31 at position k+1 of the group
       \cup {adv([toAscii(wr) EXCEPT !.grp = <<>>], WEdfBytes(Append(wr.grp, 31)))}
       \cup (IF k = 0 /\ pos = n + 1 /\ rem = 0 THEN {adv([wr EXCEPT !.done = TRUE], <<>>)} ELSE {})
  ELSE {}

\* codewords the stream will need at least (pending EDIFACT values are already committed)
WNeed(wr) == wr.w + (IF wr.mode = "edifact" THEN WEdfCw(Len(wr.grp)) ELSE 0)
              + (IF wr.mode \in {"c40", "text"} /\ Len(wr.buf) > 0 THEN 2 ELSE 0)
\* abstract view: the stream content is irrelevant for what can still happen
WView(wr) == <<wr.pos, wr.mode, Len(wr.buf), Len(wr.grp), wr.w, wr.done, wr.tail, wr.fresh, wr.idle>>
=============================================================================
